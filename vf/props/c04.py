"""C04 - see vf/props/brokerh.py (shared broker transition harness) and DESIGN.md section 3/C04."""
from vf.props import brokerh

EXPLANATION = brokerh.__doc__
ASSUMPTIONS = [
    'exact real arithmetic; round(x,2)/round(x) are uninterpreted functions with |round(x)-x| <= half a unit (ties not modelled)',
    'structural bound: <= 2 portfolios, <= 2 assets, <= 2 builder fills per position, <= 2 (thorough 3) pending orders, one operation (two updates in thorough)',
    'quotes: fresh symbolic (bid, ask) per update and asset from a stub data handler that records the dt it is asked for; bid != ask, positive unless a configuration says otherwise',
    'fill quantities are non-zero integers |q| < 1e6; fee rates in [0,1]; instants are integer nanoseconds within 40 days of a Monday epoch; the builder instant lies in exchange hours',
    'fills are observed at the broker/portfolio boundary (Transaction objects passed to Portfolio.transact_asset)',
]
DEADLINE = {'quick': 1500, 'thorough': 3400}


def configs(tier):
    return brokerh.configs_for('C04', tier)


make = brokerh.make
