"""C09 - rebalancing trades the portfolio exactly onto its target (harness: vf/props/pcm.py)."""
from vf.props import pcm

EXPLANATION = ('Real PCM + optimiser + universe + alpha model + both order sizers + execution handler + broker on a symbolic '
               'state: for each asset the booleans held / in-universe / weighted are explorer-chosen, holdings, weights, prices and '
               'cash symbolic. z3 proves per path that the orders are exactly target minus held for every asset that is held, in the '
               'universe or weighted (no zero, no duplicate, ascending), that the fills bring holdings onto the target, that unweighted '
               'holdings are liquidated and that the recorded allocation row covers exactly that asset set.')
ASSUMPTIONS = [
    'exact real arithmetic; prices in (1,1000), |holding| < 1000 and |target| < 1000 shares, cash in (1e7,1e8) (positive equity, no fill exceeds cash), weights in [-10,10] (>=0 for long-only)',
    'any-target configurations: the order sizer is a stub returning an arbitrary symbolic integer target per asset (0 for a zero weight, as C10/C11 show for both shipped sizers)',
    'target = what the order sizer returned for this rebalance, read through a recording wrapper (sizing itself is C10/C11)',
    'stub data handler with bid=ask=symbolic price; rebalance at an instant in exchange hours so the orders fill at once',
    'fee 0.1%, buffer 5% / leverage 1.5 concrete',
]
DEADLINE = {'quick': 1500, 'thorough': 3400}


def configs(tier):
    return pcm.configs_for('C09', tier)


make = pcm.make
