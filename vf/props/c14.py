"""C14 - a session trades only at scheduled rebalances after burn-in; equity is daily.

(i)  Loop harness: the real BacktestTradingSession.run / _is_rebalance_event / _update_equity_curve on an instance
     created without __init__ ("drive the unit"): k events of any type at symbolic, strictly increasing instants; the
     rebalance schedule is a real python list of two symbolic instants (membership is the real `in`); burn-in is None
     or a symbolic instant; broker, qts and signals are recording stubs.
(ii) Whole sessions on a symbolic market: see vf/props/session.py (configurations shared with C07/C08).
"""
from vf.engine.driver import Harness

EXPLANATION = ('The real event loop runs on a symbolic clock: every combination of event types, schedule membership and burn-in '
               'position is a path; z3 proves portfolio construction is invoked exactly at scheduled instants not earlier than '
               'the burn-in, once each and in time order, that the equity curve has exactly one point per market_close at or '
               'after burn-in carrying the equity read after the broker was updated to that instant, and that the target '
               'allocations are what portfolio construction appended. Whole real sessions on symbolic markets confirm fills only '
               'at market opens after the first admitted rebalance, the daily equity dates and the allocation table.')
ASSUMPTIONS = [
    'loop harness: recording stubs for broker, quant trading system and signals; the session object is created without __init__',
    'event instants strictly increasing (the simulation engine\'s contract, C12); schedule instants distinct',
    'whole sessions: concrete calendars listed per configuration, prices in (1,1000), exact real arithmetic',
]
DEADLINE = {'quick': 1500, 'thorough': 3400}
TYPES = ['pre_market', 'market_open', 'market_close', 'post_market']


def configs(tier):
    from vf.props import session
    k = 3 if tier == 'quick' else 4
    out = [dict(name='loop_%devents' % k, kind='loop', k=k, weight=1000, chunk=80, chunk_s=30,
                bound='%d events of any of the four types at symbolic increasing instants, 2 symbolic schedule instants, burn-in None or symbolic' % k,
                twins=['rebalanced', 'equity_point'])]
    out.append(dict(name='allocation_table', kind='alloc_table', weight=300, chunk=60, chunk_s=30, validate_every=4,
                    bound='real get_target_allocations() on 8 equity dates and 4 rebalances whose weight vectors are chosen among three by input booleans (so allocations change and come back), burn-in absent / on a business day / on a weekend',
                    twins=['allocation_came_back', 'burn_in_cut']))
    out += session.configs_for('C14', tier)
    return out


def make(cfg):
    if cfg['kind'] == 'loop':
        return Loop(cfg, prop='C14')
    if cfg['kind'] == 'alloc_table':
        return AllocTable(cfg)
    from vf.props import session
    return session.make(cfg)


class Loop(Harness):
    def __init__(self, cfg, prop='C14'):
        super().__init__(cfg)
        self.prop = prop

    def inputs(self, mk):
        k = self.cfg['k']
        return dict(t=[mk.time('t%d' % j) for j in range(k)], s=[mk.time('s0'), mk.time('s1')], burn=mk.time('burn'),
                    has_burn=mk.flag('has_burn'), has_signals=mk.flag('has_signals'),
                    ty=[(mk.flag('ty%d_a' % j), mk.flag('ty%d_b' % j)) for j in range(k)],
                    eq=[mk.real('equity%d' % j) for j in range(k)])

    def assume(self, L, i):
        cs = [L.tlt(i['t'][j], i['t'][j + 1]) for j in range(len(i['t']) - 1)]
        cs += [L.tlt(i['s'][0], i['s'][1])]
        cs += [L.ge(L.t(x), 0) for x in i['t'] + i['s'] + [i['burn']]]
        # Where the burn-in filter lives is an implementation choice (in the loop, or in the construction of the schedule):
        # the loop harness only feeds schedules that contain no instant before the burn-in, for which both designs must
        # agree; the boundary "burn-in exactly on / between rebalance instants" is decided on whole sessions.
        cs += [L.Implies(L.bool(i['has_burn']), L.tle(i['burn'], x)) for x in i['s']]
        return cs

    def friendly(self, L, i):
        from vf.engine.symtime import DAY
        return [L.le(L.t(x), 30 * DAY) for x in i['t'] + i['s'] + [i['burn']]]

    def run(self, i):
        from qstrader.trading.backtest import BacktestTradingSession
        from qstrader.simulation.event import SimulationEvent
        k = self.cfg['k']
        types = []
        for a, b in i['ty']:
            types.append(TYPES[(2 if bool(a) else 0) + (1 if bool(b) else 0)])
        log = []
        state = {'last': None, 'reads': 0}

        class Broker:
            def update(s, dt):
                state['last'] = dt
                log.append(('bu', dt))

            def get_account_total_equity(s):
                v = i['eq'][min(state['reads'], k - 1)]
                state['reads'] += 1
                log.append(('eq', state['last'], v))
                return {'master': v}

        class Signals:
            def update(s, dt):
                log.append(('sg', dt))

        def qts(dt, stats=None):
            log.append(('qts', dt))
            stats['target_allocations'].append({'Date': dt, 'n': len(stats['target_allocations'])})
        ses = object.__new__(BacktestTradingSession)
        events = [SimulationEvent(i['t'][j], types[j]) for j in range(k)]
        ses.sim_engine = events
        ses.broker = Broker()
        ses.signals = Signals() if bool(i['has_signals']) else None
        ses.qts = qts
        ses.rebalance_schedule = [_clone(i['s'][0]), _clone(i['s'][1])]
        use_burn = bool(i['has_burn'])
        ses.burn_in_dt = _clone(i['burn']) if use_burn else None
        ses.equity_curve = []
        ses.target_allocations = []
        ses.run()
        return dict(types=types, use_burn=use_burn, log=log, curve=list(ses.equity_curve), alloc=list(ses.target_allocations),
                    has_signals=ses.signals is not None)

    def oracle(self, L, i, out):
        if out.kind != 'ok':
            return [('loop_does_not_raise', L.true)]
        o = out.value
        k = self.cfg['k']
        T = i['t']
        obl = []

        def idx(dt):
            for j in range(k):
                if dt is T[j]:
                    return j
            return None
        burn_ok = [(L.tle(i['burn'], T[j]) if o['use_burn'] else L.true) for j in range(k)]
        if self.prop == 'C16':
            sg = [idx(d) for (kind, *rest) in o['log'] if kind == 'sg' for d in rest[:1]]
            obl.append(('signals_updated_only_at_event_times', L.bool(any(j is None for j in sg))))
            for j in range(k):
                want = 1 if (o['types'][j] == 'market_close' and o['has_signals']) else 0
                obl.append(('event%d:signals_updated_once_per_market_close_only' % j, L.bool(sg.count(j) != want)))
            # the update happens after the broker was brought to that instant
            pos = {('bu', j): n for n, e in enumerate(o['log']) if e[0] == 'bu' for j in [idx(e[1])]}
            for n, e in enumerate(o['log']):
                if e[0] == 'sg':
                    j = idx(e[1])
                    obl.append(('event%s:signals_updated_after_broker_update' % j, L.bool(j is None or pos.get(('bu', j), 10 ** 9) > n)))
            return obl
        # ---- C14
        calls = [idx(e[1]) for e in o['log'] if e[0] == 'qts']
        obl.append(('construction_only_at_event_times', L.bool(any(j is None for j in calls))))
        obl.append(('construction_in_time_order', L.bool([j for j in calls if j is not None] != sorted(j for j in calls if j is not None))))
        for j in range(k):
            sched = L.Or(L.teq(T[j], i['s'][0]), L.teq(T[j], i['s'][1]))
            expected = L.And(sched, burn_ok[j])
            n = calls.count(j)
            obl.append(('event%d:construction_runs_exactly_at_admitted_scheduled_instants' % j,
                        L.Or(L.And(expected, L.bool(n != 1)), L.And(L.Not(expected), L.bool(n != 0)))))
        # equity curve
        pts = [(idx(d), v) for (d, v) in o['curve']]
        obl.append(('equity_points_only_at_event_times', L.bool(any(j is None for j, _ in pts))))
        obl.append(('equity_points_in_time_order', L.bool([j for j, _ in pts if j is not None] != sorted(j for j, _ in pts if j is not None))))
        reads = [e for e in o['log'] if e[0] == 'eq']
        for j in range(k):
            n = sum(1 for jj, _ in pts if jj == j)
            expected = L.And(L.bool(o['types'][j] == 'market_close'), burn_ok[j])
            obl.append(('event%d:one_equity_point_per_close_at_or_after_burn_in' % j,
                        L.Or(L.And(expected, L.bool(n != 1)), L.And(L.Not(expected), L.bool(n != 0)))))
        # every point's value is an equity read taken after the broker was updated to that very instant
        for (j, v) in pts:
            if j is None:
                continue
            ok_read = [r for r in reads if r[2] is v]
            good = len(ok_read) == 1 and ok_read[0][1] is T[j]
            obl.append(('event%d:equity_value_read_after_broker_update_to_that_instant' % j, L.bool(not good)))
        # target allocations are exactly what portfolio construction appended, in order
        obl.append(('target_allocations_are_what_construction_recorded',
                    L.bool([(idx(a['Date']), a['n']) for a in o['alloc']] != [(j, n) for n, j in enumerate(calls)])))
        return obl

    def twins(self, L, i, out):
        if out.kind != 'ok':
            return []
        o = out.value
        nq = sum(1 for e in o['log'] if e[0] == 'qts')
        if self.prop == 'C16':
            return [('updated', L.bool(any(e[0] == 'sg' for e in o['log'])))]
        return [('rebalanced', L.bool(nq > 0)), ('equity_point', L.bool(len(o['curve']) > 0))]

    def observe(self, i, out):
        if out.kind != 'ok':
            return (out.kind, type(out.value).__name__)
        o = out.value
        return dict(types=o['types'], log=[(e[0], e[1]) for e in o['log']], curve=[(d, v) for d, v in o['curve']], nalloc=len(o['alloc']))

    def describe(self, i, out):
        if out.kind != 'ok':
            return str(out.value)[:200]
        o = out.value
        return dict(types=o['types'], burn_in=o['use_burn'], log=[(e[0], str(e[1])) for e in o['log']], curve=[(str(d), v) for d, v in o['curve']])


def _clone(ts):
    """a distinct object with the same instant (list membership must go through ==, not identity)"""
    from vf.engine.symtime import SymTimestamp
    if isinstance(ts, SymTimestamp):
        return SymTimestamp(ts.t)
    import pandas as pd
    return pd.Timestamp(ts.value, tz='UTC')


class AllocTable(Harness):
    """get_target_allocations(): one row per equity date, carrying forward the weights of the latest rebalance, cut at burn-in.
    The weight vector of each rebalance is chosen by input booleans among three vectors, so that every pattern of allocations
    that change and come back (A, B, A ...) is a path."""
    prop = 'C14'
    VECS = [{'EQ:A': 0.8, 'EQ:B': 0.2}, {'EQ:A': 0.3, 'EQ:B': 0.7}, {'EQ:A': 0.5, 'EQ:B': 0.5}]
    REB = [1, 3, 5, 6]

    def inputs(self, mk):
        return dict(sel=[(mk.flag('reb%d_a' % j), mk.flag('reb%d_b' % j)) for j in range(len(self.REB))],
                    burn=(mk.flag('burn_a'), mk.flag('burn_b')))

    def _days(self):
        from vf.props.session import bdays
        return bdays('2020-01-06', 8)

    def run(self, i):
        import pandas as pd
        from qstrader.trading.backtest import BacktestTradingSession
        from vf.props.session import ts
        days = self._days()
        choice = []
        for a, b in i['sel']:
            choice.append(0 if not bool(a) else (1 if not bool(b) else 2))
        ba, bb = bool(i['burn'][0]), bool(i['burn'][1])
        burn = None if not ba else (pd.Timestamp('2020-01-08 14:30', tz='UTC') if not bb else pd.Timestamp('2020-01-11 00:00', tz='UTC'))   # Wed / Sat
        ses = object.__new__(BacktestTradingSession)
        ses.equity_curve = [(ts(d, 21, 0), 1000.0 + k) for k, d in enumerate(days) if burn is None or ts(d, 21, 0) >= burn]
        ses.target_allocations = [dict({'Date': ts(days[k], 21, 0)}, **self.VECS[c]) for k, c in zip(self.REB, choice)
                                  if burn is None or ts(days[k], 21, 0) >= burn]
        ses.burn_in_dt = burn
        df = ses.get_target_allocations()
        rows = [(d, {c: (None if df.loc[d, c] != df.loc[d, c] else float(df.loc[d, c])) for c in df.columns}) for d in df.index]
        return dict(choice=choice, burn=burn, rows=rows, equity_dates=[t.date() for t, _ in ses.equity_curve],
                    rebalances=[(r['Date'].date(), {k: v for k, v in r.items() if k != 'Date'}) for r in ses.target_allocations])

    def oracle(self, L, i, out):
        if out.kind != 'ok':
            return [('allocation_table_obtainable', L.true)]
        o = out.value
        obl = [('one_row_per_equity_date', L.bool([d for d, _ in o['rows']] != o['equity_dates']))]
        for d, row in o['rows']:
            prior = [w for (rd, w) in o['rebalances'] if rd <= d]
            if not prior:
                obl.append(('%s:no_weights_before_the_first_rebalance' % d, L.bool(any(v is not None for v in row.values()))))
            else:
                obl.append(('%s:carries_the_weights_of_the_latest_rebalance' % d, L.bool(any(row.get(k) is None or abs(row[k] - v) > 1e-12 for k, v in prior[-1].items()))))
        return obl

    def twins(self, L, i, out):
        if out.kind != 'ok':
            return []
        c = out.value['choice']
        return [('allocation_came_back', L.bool(c[0] == c[2] and c[0] != c[1])), ('burn_in_cut', L.bool(out.value['burn'] is not None))]

    def observe(self, i, out):
        if out.kind != 'ok':
            return (out.kind, type(out.value).__name__)
        return dict(choice=out.value['choice'], rows=[(str(d), r) for d, r in out.value['rows']])

    def describe(self, i, out):
        return self.observe(i, out) if out.kind == 'ok' else str(out.value)[:300]
