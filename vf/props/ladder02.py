"""C02 second harness: the real Portfolio / PositionHandler / Position driven directly with a ladder of k symbolic fills on two
assets interleaved with symbolic marks, checked after EVERY step (every prefix of the ladder): closing to exactly zero and
re-opening, flipping long<->short in one fill, marks at the very instant of a fill."""
from vf.engine.driver import Harness

ASSETS = ['EQ:A', 'EQ:B']


def configs(tier):
    ks = [3] if tier == 'quick' else [3, 4]
    return [dict(kind='ladder02', oracle='C02', name='portfolio_ladder_k%d' % k, k=k, weight=400 * k, chunk=10, chunk_s=25, validate_every=2,
                 bound='%d steps, each either a fill (asset A or B, symbolic signed integer quantity, price, commission) or a mark (symbolic price) at symbolic non-decreasing instants; checked after every step' % k,
                 twins=['closed_and_reopened', 'flipped', 'marked_after_fill']) for k in ks]


def make(cfg):
    return PortfolioLadder(cfg)


class PortfolioLadder(Harness):
    prop = 'C02'
    obligation_timeout_ms = 45000

    def inputs(self, mk):
        k = self.cfg['k']
        return dict(cash=mk.real('cash'), t=[mk.time('t%d' % j) for j in range(k + 1)],
                    is_fill=[mk.flag('step%d_is_fill' % j) for j in range(k)], on_b=[mk.flag('step%d_on_B' % j) for j in range(k)],
                    q=[mk.int('q%d' % j) for j in range(k)], p=[mk.real('p%d' % j) for j in range(k)], c=[mk.real('c%d' % j) for j in range(k)])

    def assume(self, L, i):
        cs = [L.ge(i['cash'], 0), L.ge(L.t(i['t'][0]), 0)]
        cs += [L.tle(i['t'][j], i['t'][j + 1]) for j in range(len(i['t']) - 1)]
        cs += [L.And(L.ne(q, 0), L.gt(q, -10 ** 6), L.lt(q, 10 ** 6)) for q in i['q']]
        cs += [L.And(L.gt(p, 0), L.lt(p, 10 ** 5)) for p in i['p']] + [L.And(L.ge(c, 0), L.lt(c, 10 ** 4)) for c in i['c']]
        return cs

    def friendly(self, L, i):
        from vf.engine.symtime import DAY
        return [L.le(i['cash'], 10 ** 6)] + [L.And(L.ge(q, -500), L.le(q, 500)) for q in i['q']] + [L.le(p, 500) for p in i['p']] + \
               [L.le(L.t(x), 30 * DAY) for x in i['t']]

    def run(self, i):
        from qstrader.broker.portfolio.portfolio import Portfolio
        from qstrader.broker.transaction.transaction import Transaction
        port = Portfolio(i['t'][0], starting_cash=i['cash'], portfolio_id='p')
        steps = []
        for j in range(self.cfg['k']):
            a = ASSETS[1] if bool(i['on_b'][j]) else ASSETS[0]
            fill = bool(i['is_fill'][j])
            tj = i['t'][j + 1]
            if fill:
                port.transact_asset(Transaction(a, i['q'][j], tj, i['p'][j], 'o%d' % j, commission=i['c'][j]))
            else:
                port.update_market_value_of_asset(a, i['p'][j], tj)
            rep = port.portfolio_to_dict()
            steps.append(dict(asset=a, fill=fill, held={x: dict(d) for x, d in rep.items()}, cash=port.cash, mv=port.total_market_value, eq=port.total_equity))
        return steps

    def oracle(self, L, i, out):
        if out.kind != 'ok':
            return [('valid_fills_and_marks_do_not_raise', L.true)]
        R = L.num
        obl = []
        net = {a: 0 for a in ASSETS}
        last = {a: None for a in ASSETS}
        cash = R(i['cash'])
        for j, st in enumerate(out.value):
            a = st['asset']
            tag = 'step%d' % j
            if st['fill']:
                net[a] = net[a] + R(i['q'][j])
                last[a] = R(i['p'][j])
                cash = cash - (R(i['p'][j]) * R(i['q'][j]) + R(i['c'][j]))
            elif a in (out.value[j - 1]['held'] if j else {}):
                last[a] = R(i['p'][j])         # a mark of a held asset; a mark of an asset that is not held is ignored
            for x in ASSETS:
                rep = st['held'].get(x)
                touched = last[x] is not None
                if not touched:
                    obl.append(('%s:%s:never_filled_not_reported' % (tag, x), L.bool(rep is not None)))
                    continue
                obl.append(('%s:%s:reported_iff_net_nonzero' % (tag, x), L.Or(L.And(L.ne(net[x], 0), L.bool(rep is None)), L.And(L.eq(net[x], 0), L.bool(rep is not None)))))
                if rep is not None:
                    obl.append(('%s:%s:quantity_is_sum_of_fills' % (tag, x), L.ne(rep['quantity'], net[x])))
                    obl.append(('%s:%s:valued_at_most_recent_price' % (tag, x), L.ne(rep['market_value'], net[x] * last[x])))
            mv = L.sum([h['market_value'] for h in st['held'].values()]) if st['held'] else 0
            obl.append(('%s:market_value_is_sum_over_held_assets' % tag, L.ne(st['mv'], mv)))
            obl.append(('%s:equity_is_cash_plus_market_value' % tag, L.Or(L.ne(st['eq'], R(st['cash']) + R(st['mv'])), L.ne(st['cash'], cash))))
        return obl

    def twins(self, L, i, out):
        if out.kind != 'ok':
            return []
        st = out.value
        a = ASSETS[0]
        seq = [(a in s['held']) for s in st]
        reopened = any(seq[x] and not seq[y] and any(seq[z] for z in range(y + 1, len(seq))) for x in range(len(seq)) for y in range(x + 1, len(seq)))
        flipped = L.false
        qs = [s['held'][a]['quantity'] for s in st if a in s['held']]
        if len(qs) >= 2:
            flipped = L.lt(L.num(qs[0]) * L.num(qs[-1]), 0)
        marked = any((not s['fill']) and s['asset'] in s['held'] for s in st[1:])
        return [('closed_and_reopened', L.bool(reopened)), ('flipped', flipped), ('marked_after_fill', L.bool(marked))]

    def observe(self, i, out):
        if out.kind != 'ok':
            return (out.kind, type(out.value).__name__)
        return [dict(asset=s['asset'], fill=s['fill'], held={x: (d['quantity'], d['market_value']) for x, d in s['held'].items()}, cash=s['cash'], mv=s['mv'], eq=s['eq'])
                for s in out.value]

    def describe(self, i, out):
        return self.observe(i, out) if out.kind == 'ok' else str(out.value)[:300]
