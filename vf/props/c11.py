"""C11 - long/short sizing respects gross leverage and the sign of every weight.

Real code: LongShortLeveragedOrderSizer (__init__, _check_set_gross_leverage, _normalise_weights, __call__),
PercentFeeModel / ZeroFeeModel.  Stubs as in C10.
"""
from fractions import Fraction
from vf.engine.driver import Harness

EXPLANATION = ('Every path of the real long/short sizer on symbolic signed weights, prices, equity, leverage and fee rates; '
               'z3 decides per path: integrality, sign agreement, truncation toward zero, largest-affordable-within-one-'
               'currency-unit, the gross exposure bound, rejection of non-positive leverage / NaN price with ValueError.')
ASSUMPTIONS = [
    'exact real arithmetic stands in for IEEE doubles',
    'equity > 0, prices > 0 (or NaN where the configuration says so), fee rates >= 0 with commission+tax <= 1',
    'gross exposure sum|w| is 0 or > 2e-8 (sums "very close to zero" are documented as not rescaled)',
    'np.floor/np.ceil/int/np.isclose/np.isnan/np.abs shims of DESIGN.md section 1.3',
    'broker stub: get_portfolio_total_equity returns the symbolic equity; data handler stub returns the symbolic ask',
]
DEADLINE = {'quick': 900, 'thorough': 3000}
NAMES = ['EQ:A', 'EQ:B', 'EQ:C']


def configs(tier):
    out = []
    ns = [1, 2] if tier == 'quick' else [1, 2, 3]
    for n in ns:
        out.append(dict(name='ls_N%d_percentfee' % n, n=n, fee='percent', nan=[], weight=n * n * n,
                        bound='N=%d assets, signed weights, prices, equity, leverage, fee rates symbolic reals' % n,
                        twins=['short_quantity', 'long_quantity', 'rejected'], chunk=12, chunk_s=20))
        out.append(dict(name='ls_N%d_zerofee' % n, n=n, fee='zero', nan=[], weight=n * n,
                        bound='N=%d assets, ZeroFeeModel' % n, twins=['short_quantity'], chunk=12, chunk_s=20))
        for k in range(n):
            out.append(dict(name='ls_N%d_nan%d' % (n, k), n=n, fee='percent', nan=[k], weight=n,
                            bound='N=%d assets, price of asset %d unavailable (NaN)' % (n, k), twins=['rejected']))
    out.append(dict(name='ls_N0', n=0, fee='percent', nan=[], bound='empty weight dictionary', twins=[]))
    return out


def make(cfg):
    return LongShort(cfg)


class LongShort(Harness):
    prop = 'C11'
    obligation_timeout_ms = 60000
    chain_lemmas = True           # the aggregate bound is proven from the per-asset lemmas + the normalisation identity

    def inputs(self, mk):
        n = self.cfg['n']
        A = NAMES[:n]
        return dict(A=A, E=mk.real('E'), Lv=mk.real('Lv'), cr=mk.real('cr'), tr=mk.real('tr'),
                    w={a: mk.real('w_' + a[-1]) for a in A},
                    p={a: (float('nan') if i in self.cfg['nan'] else mk.real('p_' + a[-1])) for i, a in enumerate(A)})

    def _gross(self, L, i):
        return L.sum([L.abs(w) for w in i['w'].values()])

    def assume(self, L, i):
        cs = [L.gt(i['E'], 0), L.ge(i['cr'], 0), L.ge(i['tr'], 0), L.le(L.num(i['cr']) + L.num(i['tr']), 1)]
        cs += [L.gt(p, 0) for p in i['p'].values() if not L.is_nan(p)]
        if i['A']:
            g = self._gross(L, i)
            cs.append(L.Or(L.eq(g, 0), L.gt(g, Fraction(2, 10 ** 8))))
        return cs

    def friendly(self, L, i):
        cs = [L.le(i['E'], 10 ** 7), L.ge(i['E'], 1000), L.le(i['Lv'], 5), L.ge(i['Lv'], -2)]
        cs += [L.And(L.ge(p, 1), L.le(p, 1000)) for p in i['p'].values() if not L.is_nan(p)]
        cs += [L.And(L.ge(w, -4), L.le(w, 4)) for w in i['w'].values()]
        return cs

    def run(self, i):
        from qstrader.portcon.order_sizer.long_short import LongShortLeveragedOrderSizer
        from qstrader.broker.fee_model.percent_fee_model import PercentFeeModel
        from qstrader.broker.fee_model.zero_fee_model import ZeroFeeModel
        fee = PercentFeeModel(i['cr'], i['tr']) if self.cfg['fee'] == 'percent' else ZeroFeeModel()

        class Broker:
            fee_model = fee

            def get_portfolio_total_equity(s, pid):
                return i['E']

        class DH:
            def get_asset_latest_ask_price(s, dt, a):
                return i['p'][a]
        sizer = LongShortLeveragedOrderSizer(Broker(), 'p', DH(), gross_leverage=i['Lv'])
        return sizer(None, dict(i['w']))

    def oracle(self, L, i, out):
        A = i['A']
        f = (L.num(i['cr']) + L.num(i['tr'])) if self.cfg['fee'] == 'percent' else 0
        valid = L.gt(i['Lv'], 0)
        has_nan = any(L.is_nan(p) for p in i['p'].values())
        obl = []
        if out.kind == 'raise':
            obl.append(('rejection_is_ValueError', L.bool(not isinstance(out.value, ValueError))))
            obl.append(('valid_input_rejected', L.false if (has_nan and A) else valid))
            return obl
        if out.kind != 'ok':
            return [('result_defined', L.true)]
        res = out.value
        obl.append(('nonpositive_leverage_accepted', L.Not(valid)))
        if has_nan and A:
            obl.append(('nan_price_accepted', valid))
            return obl
        obl.append(('keys_are_the_weighted_assets', L.bool(sorted(res.keys()) != sorted(A))))
        if sorted(res.keys()) != sorted(A):
            return obl
        E, Lv = L.num(i['E']), L.num(i['Lv'])
        g = self._gross(L, i)
        gsafe = L.ite(L.eq(g, 0), 1, g)
        tot = 0
        pres = []
        for a in A:
            q = res[a]['quantity']
            qn = L.num(q)
            w = L.num(i['w'][a])
            pa = L.num(i['p'][a])
            pre = L.ite(L.eq(g, 0), 0, E * Lv * w / gsafe)
            d = pre - f * L.abs(pre)
            aq = L.abs(qn)
            ad = L.abs(d)
            obl.append(('quantity_integral[%s]' % a, L.And(valid, L.Not(L.is_int(q)))))
            obl.append(('sign_follows_weight[%s]' % a, L.And(valid, L.Or(L.And(L.gt(w, 0), L.lt(qn, 0)), L.And(L.lt(w, 0), L.gt(qn, 0)),
                                                                      L.And(L.eq(w, 0), L.ne(qn, 0))))))
            obl.append(('affordable_within_allocation[%s]' % a, L.And(valid, L.gt(aq * pa, ad))))
            obl.append(('largest_affordable_within_one_unit[%s]' % a, L.And(valid, L.le((aq + 1) * pa, ad - 1))))
            # (a short leg's after-cost dollars are LARGER in magnitude: pre - f|pre| = pre(1+f) for pre < 0; hence the (1+f))
            obl.append(('lemma:after_cost_allocation_within_pre_cost_times_one_plus_fee[%s]' % a, L.And(valid, L.gt(ad, L.abs(pre) * (1 + f)))))
            tot = tot + aq * pa
            pres.append(L.abs(pre))
        if A:
            obl.append(('lemma:pre_cost_allocations_sum_to_leverage_times_equity', L.And(valid, L.ne(g, 0), L.ne(L.sum(pres), Lv * E))))
            obl.append(('gross_exposure_within_leverage', L.And(valid, L.gt(tot, Lv * E * (1 + f)))))
        return obl

    def twins(self, L, i, out):
        tw = []
        if out.kind == 'raise':
            tw.append(('rejected', L.true))
        if out.kind == 'ok' and i['A'] and not any(L.is_nan(p) for p in i['p'].values()):
            q = L.num(out.value[i['A'][0]]['quantity'])
            tw.append(('short_quantity', L.lt(q, -1)))
            tw.append(('long_quantity', L.gt(q, 1)))
        return tw

    def observe(self, i, out):
        if out.kind == 'ok':
            return {a: v['quantity'] for a, v in out.value.items()}
        return (out.kind, type(out.value).__name__)

    def describe(self, i, out):
        if out.kind == 'ok':
            return {a: v['quantity'] for a, v in out.value.items()}
        return '%s: %s' % (type(out.value).__name__, str(out.value)[:200])
