"""C06 - market data is point-in-time: a price query never sees a later bar.

(a) 'lookup': real CSVDailyBarDataSource.get_bid / get_ask (the functions under lru_cache, via __wrapped__: the memo
    needs hashable, i.e. concrete, arguments) and the real BacktestDataHandler on top of them, over a CONTRACT STUB of
    exactly the pandas surface they touch (index.get_indexer(method=...), iloc, column selection, len) with rows at
    symbolic, strictly increasing instants and a symbolic query instant.  On replay the same harness runs on a real
    pandas frame, which validates the stub on every path.
(b) 'frames': real _convert_bar_frame_into_bid_ask_df / _convert_bars_into_bid_ask_dfs through real pandas with
    symbolic Open/Close/Adj Close, every row order, missing cells, adjustment on/off, gaps in the dates.
(c) 'handler': real BacktestDataHandler with stub sources returning symbolic / NaN values or raising.
"""
import itertools, datetime
from vf.engine.driver import Harness
from vf.engine import core

EXPLANATION = ('Lookup: the query instant and the row instants are symbolic integers of nanoseconds, so before-first-bar, exact '
               '14:30/21:00 boundaries, overnight and after-last-bar are all values of the same variables; z3 proves the returned bid/ask '
               'is the value of the last row at or before t and NaN when there is none, and that handler bid/ask/mid agree. Frames: '
               'symbolic prices through the real pandas conversion for every row order and missing-cell pattern; z3 proves each row '
               '(date+14:30 -> open, date+21:00 -> close, adjusted when on, forward-filled in time order).')
ASSUMPTIONS = [
    'lookup: pandas is represented by a contract stub (get_indexer pad/ffill, backfill/bfill, nearest, exact; positional iloc with negative positions counting from the end; -1 when no label qualifies); validated against a real DatetimeIndex on every replayed path',
    'rows strictly increasing in time (the frame is sorted and has no duplicate dates); <= 3 (thorough 4) rows in the lookup',
    'frames: <= 3 bars, dates concrete (with a gap), prices > 0 symbolic, <= 1 (thorough 2) missing cells; CSV text parsing, tz localisation and directory listing are outside',
    'exact real arithmetic',
]
DEADLINE = {'quick': 1500, 'thorough': 3400}


def configs(tier):
    out = []
    for n in ([1, 2, 3] if tier == 'quick' else [1, 2, 3, 4]):
        out.append(dict(kind='lookup', name='lookup_%drows' % n, n=n, weight=10 * n, chunk=30, chunk_s=30,
                        bound='%d rows at symbolic increasing instants with symbolic bid/ask (first row possibly NaN), symbolic query instant' % n,
                        twins=['before_first_row', 'exactly_on_a_row', 'between_rows'] if n >= 2 else ['before_first_row', 'exactly_on_a_row']))
    out.append(dict(kind='frames', name='frames_3bars', nbars=3, maxmissing=1 if tier == 'quick' else 2, weight=200, chunk=4, chunk_s=60,
                    bound='3 bars (gap in dates), all 6 row orders, adjustment on/off, up to %d missing cells' % (1 if tier == 'quick' else 2),
                    twins=['forward_filled']))
    out.append(dict(kind='handler', name='handler_2sources', weight=5, chunk=30, chunk_s=30,
                    bound='BacktestDataHandler over 2 stub sources returning a symbolic value, NaN, or raising',
                    twins=['second_source_used', 'all_nan']))
    return out


def make(cfg):
    return {'lookup': Lookup, 'frames': Frames, 'handler': Handler}[cfg['kind']](cfg)


# ------------------------------------------------------------------------------------------------
# contract stub of the pandas surface used by get_bid/get_ask
class IndexStub:
    def __init__(s, times):
        s.times = times

    def __len__(s):
        return len(s.times)

    def __getitem__(s, k):
        return s.times[k]

    def get_indexer(s, target, method=None, **kw):
        import numpy as np
        from vf.engine.core import SymBool
        import z3
        out = []
        n = len(s.times)
        for dt in target:
            pos = -1
            if method in ('pad', 'ffill'):
                for k in range(n):
                    if s.times[k] <= dt:
                        pos = k
                    else:
                        break
            elif method in ('backfill', 'bfill'):
                for k in range(n - 1, -1, -1):
                    if s.times[k] >= dt:
                        pos = k
                    else:
                        break
            elif method == 'nearest':
                for k in range(n):
                    if pos == -1:
                        pos = k
                    else:
                        d_old = dt.t - s.times[pos].t
                        d_new = dt.t - s.times[k].t
                        ao = z3.If(d_old >= 0, d_old, -d_old)
                        an = z3.If(d_new >= 0, d_new, -d_new)
                        if bool(SymBool(an < ao)):
                            pos = k
            elif method is None:
                for k in range(n):
                    if s.times[k] == dt:
                        pos = k
                        break
            else:
                raise ValueError('Invalid fill method: %r' % (method,))
            out.append(pos)
        return np.array(out, dtype=np.intp)

    def searchsorted(s, dt, side='left'):
        n = len(s.times)
        pos = 0
        for k in range(n):
            if (s.times[k] < dt) if side == 'left' else (s.times[k] <= dt):
                pos = k + 1
            else:
                break
        return pos


class ILoc:
    def __init__(s, fr):
        s.fr = fr

    def __getitem__(s, k):
        import numpy as np
        rows, n = s.fr.rows, len(s.fr.rows)
        if isinstance(k, (list, np.ndarray)):
            sel = []
            for j in k:
                j = int(j)
                if j < -n or j >= n:
                    raise IndexError('positional indexers are out-of-bounds')
                sel.append(rows[j])
            return FrameStub(sel, s.fr.col)
        if isinstance(k, slice):
            return FrameStub(rows[k], s.fr.col)
        j = int(k)
        if j < -n or j >= n:
            raise IndexError('single positional indexer is out-of-bounds')
        if s.fr.col is None:
            raise NotImplementedError('row access on a frame stub')
        return rows[j][1][s.fr.col]


class FrameStub:
    """rows: [(instant, {'Bid': v, 'Ask': v})]; col set after column selection (a 'Series')"""

    def __init__(s, rows, col=None):
        s.rows, s.col = rows, col

    @property
    def index(s):
        return IndexStub([r[0] for r in s.rows])

    @property
    def iloc(s):
        return ILoc(s)

    @property
    def empty(s):
        return len(s.rows) == 0

    @property
    def iat(s):
        return ILoc(s)            # positional scalar access on a selected column

    @property
    def values(s):
        if s.col is None:
            raise NotImplementedError('values of a frame stub')
        return [r[1][s.col] for r in s.rows]

    def __getitem__(s, col):
        if col not in ('Bid', 'Ask'):
            raise KeyError(col)
        return FrameStub(s.rows, col)

    def __len__(s):
        return len(s.rows)


class Lookup(Harness):
    prop = 'C06'

    def inputs(self, mk):
        n = self.cfg['n']
        return dict(t=[mk.time('row%d' % k) for k in range(n)], q=mk.time('query'), bid=[mk.real('bid%d' % k) for k in range(n)],
                    ask=[mk.real('ask%d' % k) for k in range(n)], first_nan=mk.flag('first_row_is_nan'))

    def assume(self, L, i):
        from vf.engine.symtime import DAY
        cs = [L.tlt(i['t'][k], i['t'][k + 1]) for k in range(len(i['t']) - 1)]
        cs += [L.ge(L.t(x), 0) for x in i['t'] + [i['q']]] + [L.le(L.t(x), 60 * DAY) for x in i['t'] + [i['q']]]
        cs += [L.gt(x, 0) for x in i['bid'] + i['ask']]
        return cs

    def friendly(self, L, i):
        # counterexamples are preferably placed one nanosecond before a row (the boundary instants of the statement)
        return [L.teq_offset(i['q'], 1, i['t'][-1])] if hasattr(L, 'teq_offset') else []

    def run(self, i):
        import numpy as np, pandas as pd
        from qstrader.data.daily_bar_csv import CSVDailyBarDataSource as CSV
        from qstrader.data.backtest_data_handler import BacktestDataHandler
        n = self.cfg['n']
        first_nan = bool(i['first_nan'])
        bid = [float('nan') if (first_nan and k == 0) else i['bid'][k] for k in range(n)]
        ask = [float('nan') if (first_nan and k == 0) else i['ask'][k] for k in range(n)]
        symbolic = not isinstance(i['q'], pd.Timestamp)
        ds = object.__new__(CSV)
        # a second source over the SAME directory and asset but with other bars (e.g. raw vs adjusted, or a rewritten file)
        # answers the same query first: the answer of `ds` must come from its own bars
        ds0 = object.__new__(CSV)
        for d in (ds0, ds):
            d.csv_dir, d.adjust_prices, d.csv_symbols, d.asset_type = '/data/csv', True, None, None
        bid0 = [b if b != b else b + 1 for b in bid]
        ask0 = [a if a != a else a + 2 for a in ask]
        if symbolic:
            ds.asset_bid_ask_frames = {'EQ:A': FrameStub([(i['t'][k], {'Bid': bid[k], 'Ask': ask[k]}) for k in range(n)])}
            ds0.asset_bid_ask_frames = {'EQ:A': FrameStub([(i['t'][k], {'Bid': bid0[k], 'Ask': ask0[k]}) for k in range(n)])}
            raw_bid, raw_ask = getattr(CSV.get_bid, '__wrapped__', CSV.get_bid), getattr(CSV.get_ask, '__wrapped__', CSV.get_ask)
            for d in (ds0, ds):
                d.get_bid = (lambda dt, a, d=d: raw_bid(d, dt, a))
                d.get_ask = (lambda dt, a, d=d: raw_ask(d, dt, a))
        else:
            getattr(CSV.get_bid, 'cache_clear', lambda: None)()
            getattr(CSV.get_ask, 'cache_clear', lambda: None)()
            ds.asset_bid_ask_frames = {'EQ:A': pd.DataFrame({'Bid': bid, 'Ask': ask}, index=pd.DatetimeIndex(i['t'], name='Date'))}
            ds0.asset_bid_ask_frames = {'EQ:A': pd.DataFrame({'Bid': bid0, 'Ask': ask0}, index=pd.DatetimeIndex(i['t'], name='Date'))}
        q = i['q']
        ds0.get_bid(q, 'EQ:A'); ds0.get_ask(q, 'EQ:A')
        res = dict(first_nan=first_nan, bid=ds.get_bid(q, 'EQ:A'), ask=ds.get_ask(q, 'EQ:A'))
        dh = BacktestDataHandler(None, data_sources=[ds])
        res['h_bid'] = dh.get_asset_latest_bid_price(q, 'EQ:A')
        res['h_ask'] = dh.get_asset_latest_ask_price(q, 'EQ:A')
        res['h_bid_ask'] = tuple(dh.get_asset_latest_bid_ask_price(q, 'EQ:A'))
        res['h_mid'] = dh.get_asset_latest_mid_price(q, 'EQ:A')
        return res

    def oracle(self, L, i, out):
        if out.kind != 'ok':
            return [('lookup_does_not_raise', L.true)]
        o = out.value
        n = self.cfg['n']
        obl = []
        t, q = i['t'], i['q']
        for col, got in (('bid', o['bid']), ('ask', o['ask'])):
            vals = i[col]
            isnan = L.is_nan(got)
            # no row at or before the query instant -> NaN
            obl.append(('%s:nan_iff_no_row_at_or_before_t' % col, L.And(L.tlt(q, t[0]), L.bool(not isnan))))
            for k in range(n):
                last = L.And(L.tle(t[k], q), (L.tlt(q, t[k + 1]) if k + 1 < n else L.true))
                if k == 0 and o['first_nan']:
                    obl.append(('%s:value_of_last_row_at_or_before_t[row0 is NaN]' % col, L.And(last, L.bool(not isnan))))
                else:
                    obl.append(('%s:value_of_last_row_at_or_before_t[row%d]' % (col, k), L.And(last, (L.true if isnan else L.ne(got, vals[k])))))
        # handler agrees with the source (bid == ask in the daily-bar source only when the file says so: compare like with like)
        def same(a, b):
            if L.is_nan(a) or L.is_nan(b):
                return L.bool(not (L.is_nan(a) and L.is_nan(b)))
            return L.ne(a, b)
        obl.append(('handler_bid_agrees', same(o['h_bid'], o['bid'])))
        obl.append(('handler_ask_agrees', same(o['h_ask'], o['ask'])))
        obl.append(('handler_bid_ask_pair_agrees_with_bid', L.Or(same(o['h_bid_ask'][0], o['bid']), same(o['h_bid_ask'][1], o['h_bid_ask'][0]))))
        if L.is_nan(o['h_bid_ask'][0]):
            obl.append(('handler_mid_is_nan_without_a_price', L.bool(not L.is_nan(o['h_mid']))))
        else:
            obl.append(('handler_mid_is_the_average', L.true if L.is_nan(o['h_mid']) else
                        L.ne(o['h_mid'], (L.num(o['h_bid_ask'][0]) + L.num(o['h_bid_ask'][1])) / 2)))
        return obl

    def twins(self, L, i, out):
        if out.kind != 'ok':
            return []
        t, q = i['t'], i['q']
        tw = [('before_first_row', L.tlt(q, t[0])), ('exactly_on_a_row', L.teq(q, t[-1]))]
        if len(t) >= 2:
            tw.append(('between_rows', L.And(L.tlt(t[0], q), L.tlt(q, t[1]))))
        return tw

    def describe(self, i, out):
        if out.kind != 'ok':
            return str(out.value)[:300]
        o = out.value
        return dict(rows=[str(x) for x in i['t']], query=str(i['q']), first_row_nan=o['first_nan'], bids=i['bid'], bid=o['bid'], ask=o['ask'],
                    handler=dict(bid=o['h_bid'], ask=o['h_ask'], mid=o['h_mid']))


# ------------------------------------------------------------------------------------------------
DATES = ['2020-01-06', '2020-01-07', '2020-01-09']          # gap on 01-08


class Frames(Harness):
    prop = 'C06'
    validate = True

    def inputs(self, mk):
        n = self.cfg['nbars']
        return dict(o=[mk.real('open%d' % k) for k in range(n)], c=[mk.real('close%d' % k) for k in range(n)],
                    a=[mk.real('adj%d' % k) for k in range(n)])

    def assume(self, L, i):
        return [L.And(L.gt(x, 0), L.lt(x, 10000)) for x in i['o'] + i['c'] + i['a']]

    def cases(self):
        n = self.cfg['nbars']
        cells = [(col, k) for col in 'oca' for k in range(n)]
        masks = [()] + [(c,) for c in cells]
        if self.cfg['maxmissing'] >= 2:
            masks += [m for m in itertools.combinations(cells, 2)]
        perms = list(itertools.permutations(range(n)))
        cs = []
        for mi, mask in enumerate(masks):
            for adjust in (False, True):
                # all row orders for the no-missing and single-missing patterns; two orders otherwise
                ps = perms if len(mask) <= 1 else [perms[0], perms[-1]]
                for perm in ps:
                    cs.append((perm, mask, adjust))
        return cs

    def run(self, i):
        import pandas as pd, numpy as np
        from qstrader.data.daily_bar_csv import CSVDailyBarDataSource
        n = self.cfg['nbars']
        symbolic = isinstance(i['o'][0], core.Sym)
        days = pd.DatetimeIndex(DATES[:n], tz='UTC', name='Date')
        res = []
        for perm, mask, adjust in self.cases():
            def col(vals, tag):
                v = [float('nan') if (tag, k) in mask else vals[k] for k in range(n)]
                return pd.Series(v, dtype=object).values if symbolic else np.array(v, dtype=float)
            df = pd.DataFrame({'Open': col(i['o'], 'o'), 'High': 0.0, 'Close': col(i['c'], 'c'), 'Adj Close': col(i['a'], 'a')}, index=days)
            df = df.iloc[list(perm)]
            ds = object.__new__(CSVDailyBarDataSource)
            ds.adjust_prices = adjust
            ds.asset_bar_frames = {'EQ:A': df}
            frames = ds._convert_bars_into_bid_ask_dfs()
            fr = frames['EQ:A']
            res.append(dict(index=[str(x) for x in fr.index], bid=list(fr['Bid']), ask=list(fr['Ask']), cols=list(fr.columns), keys=list(frames)))
        # adjustment requested without the column -> ValueError
        ds = object.__new__(CSVDailyBarDataSource)
        ds.adjust_prices = True
        try:
            ds._convert_bar_frame_into_bid_ask_df(pd.DataFrame({'Open': [1.0], 'Close': [1.0]}, index=days[:1]))
            noadj = 'accepted'
        except ValueError:
            noadj = 'ValueError'
        return dict(frames=res, noadj=noadj)

    def oracle(self, L, i, out):
        if out.kind != 'ok':
            return [('conversion_does_not_raise', L.true)]
        n = self.cfg['nbars']
        obl = [('adjustment_without_adjusted_close_is_rejected', L.bool(out.value['noadj'] != 'ValueError'))]
        exp_index = []
        for d in DATES[:n]:
            exp_index += ['%s 14:30:00+00:00' % d, '%s 21:00:00+00:00' % d]
        for ci, ((perm, mask, adjust), fr) in enumerate(zip(self.cases(), out.value['frames'])):
            tag = 'case%d[order=%s,missing=%s,adjust=%s]' % (ci, ''.join(map(str, perm)), ','.join('%s%d' % m for m in mask) or '-', 'on' if adjust else 'off')
            obl.append((tag + ':rows_are_open_and_close_instants_sorted', L.bool(fr['index'] != exp_index or fr['keys'] != ['EQ:A'])))
            if fr['index'] != exp_index:
                continue
            prev = None          # previous observation in time order (None = nothing yet -> NaN)
            k = 0
            for b in range(n):
                miss = lambda t: (t, b) in mask
                if adjust:
                    open_v = None if (miss('o') or miss('c') or miss('a')) else L.num(i['a'][b]) / L.num(i['c'][b]) * L.num(i['o'][b])
                    close_v = None if miss('a') else L.num(i['a'][b])
                else:
                    open_v = None if miss('o') else L.num(i['o'][b])
                    close_v = None if miss('c') else L.num(i['c'][b])
                for v in (open_v, close_v):
                    want = v if v is not None else prev
                    for colname in ('bid', 'ask'):
                        got = fr[colname][k]
                        if want is None:
                            obl.append(('%s:row%d:%s_stays_missing_without_earlier_observation' % (tag, k, colname), L.bool(not L.is_nan(got))))
                        else:
                            obl.append(('%s:row%d:%s' % (tag, k, colname), L.true if L.is_nan(got) else L.ne(got, want)))
                    prev = want
                    k += 1
        return obl

    def twins(self, L, i, out):
        return [('forward_filled', L.true)] if out.kind == 'ok' else []

    def observe(self, i, out):
        if out.kind != 'ok':
            return (out.kind, type(out.value).__name__)
        return [dict(bid=f['bid'], ask=f['ask']) for f in out.value['frames']]

    def describe(self, i, out):
        if out.kind != 'ok':
            return str(out.value)[:300]
        return dict(noadj=out.value['noadj'], first_frames=out.value['frames'][:3])


# ------------------------------------------------------------------------------------------------
class Handler(Harness):
    prop = 'C06'

    def inputs(self, mk):
        return dict(v=[mk.real('src%d_bid' % k) for k in range(2)], w=[mk.real('src%d_ask' % k) for k in range(2)],
                    nan=[mk.flag('src%d_nan' % k) for k in range(2)], exc=[mk.flag('src%d_raises' % k) for k in range(2)])

    def assume(self, L, i):
        return [L.gt(x, 0) for x in i['v'] + i['w']]

    def run(self, i):
        from qstrader.data.backtest_data_handler import BacktestDataHandler
        mode = []
        for k in range(2):
            mode.append('raise' if bool(i['exc'][k]) else ('nan' if bool(i['nan'][k]) else 'value'))
        asked = []

        class Src:
            def __init__(s, k):
                s.k = k

            def _get(s, vals, dt, a, which):
                asked.append((s.k, which, dt, a))
                if mode[s.k] == 'raise':
                    raise KeyError(a)
                return float('nan') if mode[s.k] == 'nan' else vals[s.k]

            def get_bid(s, dt, a):
                return s._get(i['v'], dt, a, 'bid')

            def get_ask(s, dt, a):
                return s._get(i['w'], dt, a, 'ask')
        dh = BacktestDataHandler(None, data_sources=[Src(0), Src(1)])
        T = 'T'
        return dict(mode=mode, bid=dh.get_asset_latest_bid_price(T, 'EQ:A'), ask=dh.get_asset_latest_ask_price(T, 'EQ:A'),
                    pair=tuple(dh.get_asset_latest_bid_ask_price(T, 'EQ:A')), mid=dh.get_asset_latest_mid_price(T, 'EQ:A'),
                    asked=[(k, w, dt == T and a == 'EQ:A') for k, w, dt, a in asked])

    def oracle(self, L, i, out):
        if out.kind != 'ok':
            return [('handler_does_not_raise', L.true)]
        o = out.value
        first = next((k for k in range(2) if o['mode'][k] == 'value'), None)
        obl = [('sources_asked_for_the_given_time_and_asset', L.bool(not all(ok for _, _, ok in o['asked'])))]
        for name, got, vals in (('bid', o['bid'], i['v']), ('ask', o['ask'], i['w'])):
            if first is None:
                obl.append(('%s_is_nan_when_no_source_has_a_price' % name, L.bool(not L.is_nan(got))))
            else:
                obl.append(('%s_is_first_available_source_value' % name, L.true if L.is_nan(got) else L.ne(got, vals[first])))
        if first is None:
            obl.append(('mid_is_nan_when_no_source_has_a_price', L.bool(not L.is_nan(o['mid']))))
        else:
            obl.append(('pair_agrees_with_bid', L.true if L.is_nan(o['pair'][0]) else L.ne(o['pair'][0], i['v'][first])))
            obl.append(('mid_is_average_of_the_pair', L.true if (L.is_nan(o['mid']) or L.is_nan(o['pair'][0])) else
                        L.ne(o['mid'], (L.num(o['pair'][0]) + L.num(o['pair'][1])) / 2)))
        return obl

    def twins(self, L, i, out):
        if out.kind != 'ok':
            return []
        m = out.value['mode']
        return [('second_source_used', L.bool(m[0] != 'value' and m[1] == 'value')), ('all_nan', L.bool('value' not in m))]

    def describe(self, i, out):
        return out.value if out.kind == 'ok' else str(out.value)[:300]
