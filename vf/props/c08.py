"""C08 - a fixed-weight backtest reproduces the documented trading rules exactly.

(ii) Whole real sessions on a symbolic market compared, path by path, with the independent reference model of
     vf/props/reference.py (fills: time, asset, quantity, price, commission; sells first; final cash and holdings;
     daily equity).
(i)  One rebalance cycle from an arbitrary portfolio state: vf/props/cycle.py.
"""
from vf.props import session

EXPLANATION = ('Differential check of the real session against a reference model written from the statement: both produce z3 terms '
               'over the same symbolic market; floor/round are shared uninterpreted functions so equal arguments give equal integers; '
               'z3 proves fills, cash, holdings and daily equity equal on every path of every configuration.')
ASSUMPTIONS = [
    'exact real arithmetic; market symbolic in (1,1000) and initial cash symbolic in [1e5,1e7]; weights, buffer/leverage, fee rates and calendar concrete per configuration (arithmetic among these constants is evaluated in doubles, as any implementation does)',
    'every obligation is conditioned on the reference portfolio equity being positive at every sizing instant (the sizing rules presuppose it, as in C10/C11); markets that drive equity to zero or below are outside the claim',
    'reference model: vf/props/reference.py (trusted as the reading of the statement)',
]
DEADLINE = {'quick': 1500, 'thorough': 3400}


def configs(tier):
    out = session.configs_for('C08', tier)
    try:
        from vf.props import cycle
        out += cycle.configs(tier)
    except ImportError:
        pass
    return out


def make(cfg):
    if cfg['kind'] == 'session':
        return session.make(cfg)
    from vf.props import cycle
    return cycle.make(cfg)
