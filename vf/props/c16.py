"""C16 - signals equal their definitions over the trailing window of supplied closes.

Real code: AssetPriceBuffers, Signal, MomentumSignal, SMASignal, VolatilitySignal (through real
pd.Series.pct_change().dropna().to_numpy(), np.cumprod, np.mean, np.std on object arrays), SignalsCollection.update,
DynamicUniverse; BacktestTradingSession.run for the once-per-close cadence (loop harness shared with C14).
Secondary engines for the string kernel (buffer key injectivity): CrossHair on the real function, cvc5 on the
format string regenerated from the function's AST.
"""
import os, sys, time, json, subprocess, ast, inspect, textwrap
from fractions import Fraction
from vf.engine.driver import Harness, run_property, ROOT

EXPLANATION = ('Real signal classes are fed symbolic positive price streams (two assets, two or three lookbacks in one object); after every '
               'append z3 proves momentum, moving average and volatility equal their trailing-window definitions (warm-up '
               'included). SignalsCollection.update runs with a dynamic universe whose entry times and update times are symbolic '
               'instants: one append per tracked asset per update, priced at that update\'s time, new assets start empty. The '
               'session loop (symbolic event clock) calls signals.update exactly once per market_close. Buffer keys are shown '
               'injective by CrossHair (bounded) and cvc5 (unbounded).')
ASSUMPTIONS = [
    'exact real arithmetic; sqrt as uninterpreted function with s>=0, s*s=x; np.sqrt(252) is the double constant',
    'prices > 0 (one configuration leaves one price unconstrained to check the ValueError)',
    'stub data handler returning a fresh symbolic mid price per (update, asset) and recording the dt it was asked for',
    'lookback lists without duplicates (the statement speaks of lookback sets)',
    'key injectivity: CrossHair bound len(asset) <= 4, lookback < 1000; cvc5 unbounded over strings without that bound',
]
DEADLINE = {'quick': 1500, 'thorough': 3400}


def configs(tier):
    out = []
    if tier == 'quick':
        streams = [(5, [1, 2]), (5, [2, 3]), (4, [1, 2, 3])]
        upd = [3]
    else:
        streams = [(5, [1, 2]), (5, [2, 3]), (4, [1, 2, 3]), (6, [3, 4]), (7, [2, 4]), (6, [1, 3, 4])]
        upd = [3, 4]
    for ell, lbs in streams:
        out.append(dict(name='streams_len%d_lb%s' % (ell, '_'.join(map(str, lbs))), kind='streams', ell=ell, lbs=lbs, weight=ell * 10,
                        bound='2 assets, %d lookbacks %s in one signal object, %d symbolic prices each' % (len(lbs), lbs, ell),
                        twins=['stream_consumed']))
    out.append(dict(name='nonpositive_price', kind='badprice', weight=1, bound='one price of arbitrary sign appended to each signal kind',
                    twins=['rejected', 'accepted']))
    for k in upd:
        out.append(dict(name='collection_%dupdates' % k, kind='collection', k=k, weight=50 * k, chunk=20, chunk_s=30,
                        bound='SignalsCollection with SMA+momentum signals, dynamic universe of 2 assets with symbolic entry instants (one may be None), %d updates at symbolic increasing instants' % k,
                        twins=['late_entry', 'never_entered']))
    from vf.props import session
    out += session.configs_for('C16', tier)
    out.append(dict(name='session_loop_cadence', kind='loop', k=3 if tier == 'quick' else 4, weight=100, chunk=60, chunk_s=30,
                    bound='real BacktestTradingSession.run loop, %d events of any type at symbolic instants' % (3 if tier == 'quick' else 4),
                    twins=['updated']))
    return out


def make(cfg):
    k = cfg['kind']
    if k == 'streams':
        return Streams(cfg)
    if k == 'badprice':
        return BadPrice(cfg)
    if k == 'collection':
        return Collection(cfg)
    if k == 'session':
        from vf.props import session
        return session.make(cfg)
    from vf.props.c14 import Loop
    return Loop(cfg, prop='C16')


SQRT252 = float(252) ** 0.5


class Streams(Harness):
    prop = 'C16'
    obligation_timeout_ms = 60000
    ASSETS = ['EQ:A', 'EQ:B']

    def inputs(self, mk):
        return dict(p={a: [mk.real('p%s%d' % (a[-1], t)) for t in range(self.cfg['ell'])] for a in self.ASSETS})

    def assume(self, L, i):
        return [L.gt(x, 0) for a in self.ASSETS for x in i['p'][a]]

    def friendly(self, L, i):
        return [L.And(L.ge(x, 1), L.le(x, 200)) for a in self.ASSETS for x in i['p'][a]]

    def run(self, i):
        from qstrader.signals.momentum import MomentumSignal
        from qstrader.signals.sma import SMASignal
        from qstrader.signals.vol import VolatilitySignal
        from qstrader.asset.universe.static import StaticUniverse
        lbs = list(self.cfg['lbs'])
        uni = StaticUniverse(list(self.ASSETS))
        sigs = dict(mom=MomentumSignal(None, uni, list(lbs)), sma=SMASignal(None, uni, list(lbs)), vol=VolatilitySignal(None, uni, list(lbs)))
        steps = []
        for t in range(self.cfg['ell']):
            for a in self.ASSETS:
                for sg in sigs.values():
                    sg.append(a, i['p'][a][t])
            steps.append({a: {n: {lb: sg(a, lb) for lb in lbs} for n, sg in sigs.items()} for a in self.ASSETS})
        return steps

    def oracle(self, L, i, out):
        if out.kind != 'ok':
            return [('signals_computable', L.true)]
        R = L.num
        obl = []
        d = Fraction(SQRT252) if L.symbolic else SQRT252
        for t, step in enumerate(out.value):
            have = t + 1
            for a in self.ASSETS:
                p = [R(x) for x in i['p'][a][:have]]
                for lb in self.cfg['lbs']:
                    tag = 't%d:%s:lb%d' % (t, a[-1], lb)
                    undef = [n for n in ('mom', 'sma', 'vol') if L.is_undefined(step[a][n][lb])]
                    if undef:
                        obl.append((tag + ':signal_value_is_defined', L.true))
                        continue
                    # momentum: last/first - 1 over the most recent lb+1 prices (shorter while warming up; 0 with one price)
                    k = min(lb, have - 1)
                    mom_def = (p[-1] / p[-1 - k] - 1) if k >= 1 else 0
                    obl.append((tag + ':momentum', L.ne(step[a]['mom'][lb], mom_def)))
                    # moving average: mean of the most recent lb prices
                    w = p[-min(lb, have):]
                    obl.append((tag + ':sma', L.ne(step[a]['sma'][lb], sum(w[1:], w[0]) / len(w))))
                    # volatility: population deviation of the most recent lb simple returns, times sqrt(252)
                    v = step[a]['vol'][lb]
                    if k == 0:
                        obl.append((tag + ':vol_zero_without_returns', L.ne(v, 0)))
                    else:
                        rets = [p[j] / p[j - 1] - 1 for j in range(have - k, have)]
                        m = sum(rets[1:], rets[0]) / k
                        var = sum(((x - m) * (x - m) for x in rets[1:]), (rets[0] - m) * (rets[0] - m)) / k
                        obl.append((tag + ':vol', L.Or(L.lt(v, 0), L.ne(R(v) * R(v), var * d * d))))
        return obl

    def twins(self, L, i, out):
        if out.kind != 'ok':
            return []
        last = out.value[-1]['EQ:A']
        lb = self.cfg['lbs'][0]
        return [('stream_consumed', L.bool(len(out.value) == self.cfg['ell']))]

    def describe(self, i, out):
        return out.value[-1] if out.kind == 'ok' else str(out.value)[:200]


class BadPrice(Harness):
    prop = 'C16'

    def inputs(self, mk):
        return dict(p0=mk.real('p0'), x=mk.real('x'))

    def assume(self, L, i):
        return [L.gt(i['p0'], 0)]

    def friendly(self, L, i):
        return [L.le(i['p0'], 100), L.And(L.ge(i['x'], -100), L.le(i['x'], 100))]

    def run(self, i):
        from qstrader.signals.momentum import MomentumSignal
        from qstrader.signals.sma import SMASignal
        from qstrader.signals.vol import VolatilitySignal
        from qstrader.asset.universe.static import StaticUniverse
        res = {}
        for n, cls in (('mom', MomentumSignal), ('sma', SMASignal), ('vol', VolatilitySignal)):
            sg = cls(None, StaticUniverse(['EQ:A']), [2])
            sg.append('EQ:A', i['p0'])
            try:
                sg.append('EQ:A', i['x'])
                res[n] = ('accepted', len(sg.buffers.prices['EQ:A_%d' % (2 if n == 'sma' else 3)]))
            except ValueError:
                res[n] = ('ValueError', len(sg.buffers.prices['EQ:A_%d' % (2 if n == 'sma' else 3)]))
        return res

    def oracle(self, L, i, out):
        if out.kind != 'ok':
            return [('only_ValueError_is_raised', L.true)]
        obl = []
        for n, (what, ln) in out.value.items():
            obl.append(('%s:nonpositive_price_rejected' % n, L.And(L.le(i['x'], 0), L.bool(what != 'ValueError'))))
            obl.append(('%s:positive_price_accepted' % n, L.And(L.gt(i['x'], 0), L.bool(what != 'accepted'))))
            obl.append(('%s:rejected_price_not_stored' % n, L.bool((what == 'ValueError' and ln != 1) or (what == 'accepted' and ln != 2))))
        return obl

    def twins(self, L, i, out):
        if out.kind != 'ok':
            return []
        return [('rejected', L.bool(out.value['sma'][0] == 'ValueError')), ('accepted', L.bool(out.value['sma'][0] == 'accepted'))]

    def describe(self, i, out):
        return out.value if out.kind == 'ok' else str(out.value)[:200]


class Collection(Harness):
    """SignalsCollection.update with a dynamic universe: entry instants and update instants symbolic."""
    prop = 'C16'
    ASSETS = ['EQ:A', 'EQ:B']

    def inputs(self, mk):
        k = self.cfg['k']
        return dict(start=mk.time('start'), entryA=mk.time('entryA'), entryB=mk.time('entryB'), b_listed=mk.flag('b_has_entry_date'),
                    t=[mk.time('t%d' % j) for j in range(k)],
                    px={a: [mk.real('px%s%d' % (a[-1], j)) for j in range(k)] for a in self.ASSETS})

    def assume(self, L, i):
        cs = [L.tle(i['start'], i['t'][0])]
        cs += [L.tlt(i['t'][j], i['t'][j + 1]) for j in range(len(i['t']) - 1)]
        cs += [L.gt(x, 0) for a in self.ASSETS for x in i['px'][a]]
        cs += [L.ge(L.t(x), 0) for x in [i['start'], i['entryA'], i['entryB']]]
        return cs

    def friendly(self, L, i):
        from vf.engine.symtime import DAY
        return [L.le(L.t(x), 30 * DAY) for x in [i['start'], i['entryA'], i['entryB']] + i['t']] + \
               [L.And(L.ge(x, 1), L.le(x, 200)) for a in self.ASSETS for x in i['px'][a]]

    def run(self, i):
        from qstrader.signals.momentum import MomentumSignal
        from qstrader.signals.sma import SMASignal
        from qstrader.signals.signals_collection import SignalsCollection
        from qstrader.asset.universe.dynamic import DynamicUniverse
        listed = bool(i['b_listed'])
        uni = DynamicUniverse({'EQ:A': i['entryA'], 'EQ:B': (i['entryB'] if listed else None)})
        calls = []
        cur = {'j': None}

        class DH:
            def get_asset_latest_mid_price(s, dt, a):
                calls.append((cur['j'], a, dt))
                return i['px'][a][cur['j']]
        sigs = {'sma': SMASignal(i['start'], uni, [2]), 'mom': MomentumSignal(i['start'], uni, [1])}
        col = SignalsCollection(sigs, DH())
        for j, t in enumerate(i['t']):
            cur['j'] = j
            col.update(t)
        windows = {n: {a: list(sg.buffers.prices.get('%s_2' % a, ['absent'])) for a in self.ASSETS} for n, sg in sigs.items()}
        return dict(listed=listed, calls=calls, windows=windows, warmup=col.warmup,
                    values={a: (sigs['sma'](a, 2) if '%s_2' % a in sigs['sma'].buffers.prices and len(sigs['sma'].buffers.prices['%s_2' % a]) else None)
                            for a in self.ASSETS})

    def oracle(self, L, i, out):
        if out.kind != 'ok':
            return [('update_does_not_raise', L.true)]
        o = out.value
        k = self.cfg['k']
        obl = [('warmup_counts_updates', L.bool(o['warmup'] != k))]
        entry = {'EQ:A': i['entryA'], 'EQ:B': i['entryB'] if o['listed'] else None}
        for (jj, a, dt) in o['calls']:
            obl.append(('%s:update%d:price_requested_for_that_update_time' % (a[-1], jj), L.Not(L.teq(dt, i['t'][jj]))))
        for a in self.ASSETS:
            # member[j]: the asset belongs to the universe at update j (entry <= t_j, inclusive; never without an entry date)
            member = [(L.tle(entry[a], i['t'][j]) if entry[a] is not None else L.false) for j in range(k)]
            cnt = [sum(1 for (jj, b, dt) in o['calls'] if b == a and jj == j) for j in range(k)]
            for j in range(k):
                # two signals in the collection: exactly one price per signal per update while a member, none before
                obl.append(('%s:update%d:one_observation_per_signal_iff_member' % (a[-1], j),
                            L.Or(L.And(member[j], L.bool(cnt[j] != 2)), L.And(L.Not(member[j]), L.bool(cnt[j] != 0)))))
            tracked = [j for j in range(k) if cnt[j] > 0]
            exp = [i['px'][a][j] for j in tracked][-2:]
            for n in ('sma', 'mom'):
                win = o['windows'][n][a]
                got = [] if win == ['absent'] else win
                obl.append(('%s:%s:window_length' % (a[-1], n), L.bool(len(got) != len(exp))))
                if len(got) == len(exp):
                    for x, y in zip(got, exp):
                        obl.append(('%s:%s:window_holds_exactly_the_prices_since_entry' % (a[-1], n), L.ne(x, y)))
        return obl

    def twins(self, L, i, out):
        if out.kind != 'ok':
            return []
        o = out.value
        return [('late_entry', L.bool(0 < len([1 for w in [o['windows']['sma']['EQ:A']] if w != ['absent'] and len(w) == 1]))),
                ('never_entered', L.bool(o['windows']['sma']['EQ:B'] == ['absent']))]

    def observe(self, i, out):
        if out.kind != 'ok':
            return (out.kind, type(out.value).__name__)
        o = out.value
        return dict(windows=o['windows'], warmup=o['warmup'], ncalls=len(o['calls']), values=o['values'])

    def describe(self, i, out):
        if out.kind != 'ok':
            return str(out.value)[:200]
        o = out.value
        return dict(windows=o['windows'], warmup=o['warmup'], calls=[(j, a, str(dt)) for j, a, dt in o['calls']])


# ------------------------------------------------------------------------------------------------
# string kernel: buffer key injectivity
CROSSHAIR_TEMPLATE = '''
import sys
sys.path.insert(0, %(repo)r)
from qstrader.signals.buffer import AssetPriceBuffers
from qstrader.signals.momentum import MomentumSignal
from qstrader.signals.vol import VolatilitySignal


def keys_injective(a1: str, l1: int, a2: str, l2: int) -> bool:
    """
    pre: len(a1) <= 4 and len(a2) <= 4 and 0 <= l1 < 1000 and 0 <= l2 < 1000
    pre: (a1, l1) != (a2, l2)
    post: _ == True
    """
    return AssetPriceBuffers._asset_lookback_key(a1, l1) != AssetPriceBuffers._asset_lookback_key(a2, l2)


def keys_twin(a1: str, l1: int, a2: str, l2: int) -> bool:
    """
    pre: len(a1) <= 4 and len(a2) <= 4 and 0 <= l1 < 1000 and 0 <= l2 < 1000
    post: _ == True
    """
    return AssetPriceBuffers._asset_lookback_key(a1, l1) != AssetPriceBuffers._asset_lookback_key(a2, l2)
'''


def crosshair_keys(tier):
    """CrossHair on the real key functions (bounded)."""
    import tempfile, shutil
    from vf.engine.driver import REPO
    d = tempfile.mkdtemp(prefix='vf_ch_')
    res = dict(engine='crosshair 0.0.110')
    try:
        f = os.path.join(d, 'ch_keys.py')
        open(f, 'w').write(CROSSHAIR_TEMPLATE % dict(repo=REPO))
        tmo = '40' if tier == 'quick' else '120'
        py = sys.executable
        t0 = time.time()
        out = {}
        for fn in ('keys_injective', 'keys_twin'):
            r = subprocess.run([py, '-m', 'crosshair', 'check', '--report_all', '--per_condition_timeout', tmo, '%s:%d' % (f, _lineno(f, fn))],
                               capture_output=True, text=True, timeout=int(tmo) * 4 + 60, env=dict(os.environ, PYTHONPATH=REPO))
            out[fn] = (r.stdout + r.stderr).strip()[-400:]
        res['seconds'] = round(time.time() - t0, 1)
        res['keys_injective'] = out['keys_injective']
        res['twin'] = out['keys_twin']
        inj = out['keys_injective']
        res['confirmed'] = 'Confirmed over all paths' in inj
        res['counterexample'] = ('false when calling' in inj) or ('error' in inj.lower() and 'Confirmed' not in inj and 'Not confirmed' not in inj)
        res['twin_violated'] = 'false when calling' in out['keys_twin']
    except Exception as e:
        res['error'] = '%s: %s' % (type(e).__name__, e)
    finally:
        shutil.rmtree(d, ignore_errors=True)
    return res


def _lineno(path, fn):
    for n, l in enumerate(open(path), 1):
        if l.startswith('def %s' % fn):
            return n + 1
    raise ValueError(fn)


def _format_shape(func):
    """AST of `return '<fmt>' % (asset, <lookback expr>)` -> (prefix, sep, suffix, offset) or None"""
    src = textwrap.dedent(inspect.getsource(func))
    tree = ast.parse(src)
    fn = tree.body[0]
    rets = [n for n in ast.walk(fn) if isinstance(n, ast.Return)]
    if len(rets) != 1:
        return None
    e = rets[0].value
    if not (isinstance(e, ast.BinOp) and isinstance(e.op, ast.Mod) and isinstance(e.left, ast.Constant) and isinstance(e.left.value, str)
            and isinstance(e.right, ast.Tuple) and len(e.right.elts) == 2):
        return None
    fmt = e.left.value
    parts = fmt.split('%s')
    if len(parts) != 3 or '%' in ''.join(parts):
        return None
    args = [a.arg for a in fn.args.args]
    first, second = e.right.elts
    if not (isinstance(first, ast.Name) and first.id == args[0]):
        return None
    off = 0
    if isinstance(second, ast.Name) and second.id == args[1]:
        off = 0
    elif (isinstance(second, ast.BinOp) and isinstance(second.op, ast.Add) and isinstance(second.left, ast.Name) and second.left.id == args[1]
          and isinstance(second.right, ast.Constant) and isinstance(second.right.value, int)):
        off = second.right.value
    else:
        return None
    return parts[0], parts[1], parts[2], off


def cvc5_keys():
    """Unbounded: render the format string found in the real function's AST into SMT-LIB strings; lookbacks are
    canonical decimal numerals (the rendering of a non-negative int).  unsat = injective."""
    from qstrader.signals.buffer import AssetPriceBuffers
    from qstrader.signals.momentum import MomentumSignal
    from qstrader.signals.vol import VolatilitySignal
    import tempfile
    res = dict(engine='cvc5 binary', functions={})
    ok = True
    for cls in (AssetPriceBuffers, MomentumSignal, VolatilitySignal):
        func = cls.__dict__['_asset_lookback_key'].__func__
        shape = _format_shape(func)
        name = cls.__name__
        if shape is None:
            res['functions'][name] = 'format expression not of the expected shape: inconclusive'
            ok = False
            continue
        pre, sep, suf, off = shape
        # an offset only shifts the numeral (l -> l+off is injective on ints); the string claim is on the numerals
        q = lambda s: '"%s"' % s.replace('"', '""')
        smt = '\n'.join([
            '(set-logic QF_SLIA)',
            '(declare-fun a1 () String)(declare-fun a2 () String)(declare-fun l1 () String)(declare-fun l2 () String)',
            '(define-fun num ((s String)) Bool (str.in_re s (re.union (str.to_re "0") (re.++ (re.range "1" "9") (re.* (re.range "0" "9"))))))',
            '(assert (num l1))(assert (num l2))',
            '(assert (= (str.++ %s a1 %s l1 %s) (str.++ %s a2 %s l2 %s)))' % (q(pre), q(sep), q(suf), q(pre), q(sep), q(suf)),
            '(assert (or (not (= a1 a2)) (not (= l1 l2))))',
            '(check-sat)'])
        with tempfile.NamedTemporaryFile('w', suffix='.smt2', delete=False) as f:
            f.write(smt)
            path = f.name
        try:
            t0 = time.time()
            r = subprocess.run(['cvc5', '--strings-exp', '--tlimit=60000', path], capture_output=True, text=True, timeout=90)
            ans = r.stdout.strip().splitlines()[-1] if r.stdout.strip() else ('error: ' + r.stderr.strip()[:200])
            if '(error' in r.stdout or '(error' in r.stderr:
                ans = 'error: ' + (r.stdout + r.stderr)[:200]
        except Exception as e:
            ans = 'error: %s' % e
        finally:
            os.unlink(path)
        res['functions'][name] = dict(format=pre + '%s' + sep + '%s' + suf, lookback_offset=off, answer=ans, seconds=round(time.time() - t0, 2),
                                      separator_has_no_digit=not any(ch.isdigit() for ch in sep + suf))
        if ans != 'unsat':
            ok = False
    res['all_unsat'] = ok
    return res


def main(tier, seed, workers):
    t0 = time.time()
    ch = crosshair_keys(tier)
    cv = cvc5_keys()
    extra = dict(key_injectivity=dict(crosshair=ch, cvc5=cv))
    code = run_property('C16', 'vf.props.c16', tier, seed=seed, workers=workers, extra_evidence=extra)
    # verdict of the string kernel
    if ch.get('counterexample') or any(isinstance(v, dict) and v.get('answer') == 'sat' for v in cv['functions'].values()):
        # replay: search a concrete collision on the real functions before reporting
        col = _concrete_collision()
        if col:
            os.makedirs(os.path.join(os.environ.get('VERIF_OUT', ROOT), 'replays', 'C16'), exist_ok=True)
            p = os.path.join(os.environ.get('VERIF_OUT', ROOT), 'replays', 'C16', 'key_collision.json')
            json.dump(dict(property='C16', kind='key_collision', collision=col), open(p, 'w'), indent=1)
            print('VIOLATION property=C16 replay=%s   (buffer keys collide: %s)' % (p, col))
            return 1
        print('INCONCLUSIVE: string kernel: solver reported a collision that did not reproduce on the real functions')
        return code or 2
    if code == 0 and not (ch.get('confirmed') or cv.get('all_unsat')):
        print('INCONCLUSIVE: key injectivity neither confirmed by CrossHair (%s) nor by cvc5 (%s)' % (ch.get('keys_injective', ch.get('error')), cv['functions']))
        return 2
    if code == 0 and not ch.get('twin_violated') and ch.get('confirmed') and not cv.get('all_unsat'):
        print('INCONCLUSIVE: CrossHair reachability twin was not violated')
        return 2
    return code


def _concrete_collision():
    from qstrader.signals.buffer import AssetPriceBuffers
    from qstrader.signals.momentum import MomentumSignal
    from qstrader.signals.vol import VolatilitySignal
    cands = ['A', 'A_1', 'A_1_2', 'A1', '1', '', '_', 'A_', 'A_12', 'AB', 'B_2']
    for cls in (AssetPriceBuffers, MomentumSignal, VolatilitySignal):
        seen = {}
        for a in cands:
            for l in (0, 1, 2, 3, 11, 12, 21, 112):
                k = cls._asset_lookback_key(a, l)
                if k in seen and seen[k] != (a, l):
                    return dict(cls=cls.__name__, first=seen[k], second=(a, l), key=k)
                seen[k] = (a, l)
    return None
