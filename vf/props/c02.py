"""C02 - holdings equal the net of all fills and are valued at the latest price.
(i) shared broker transition harness (vf/props/brokerh.py); (ii) direct Portfolio/PositionHandler ladders (vf/props/ladder02.py)."""
from vf.props import brokerh, ladder02

EXPLANATION = brokerh.__doc__ + '\n' + ladder02.__doc__
ASSUMPTIONS = [
    'exact real arithmetic; round(x,2)/round(x) are uninterpreted functions with |round(x)-x| <= half a unit (ties not modelled)',
    'structural bound: <= 2 portfolios, <= 2 assets, <= 2 builder fills per position, <= 2 (thorough 3) pending orders, one operation (two updates in thorough); ladders of 3 (thorough 4) fill/mark steps on 2 assets',
    'quotes: fresh symbolic (bid, ask) per update and asset from a stub data handler that records the dt it is asked for; bid != ask, positive',
    'fill quantities are non-zero integers |q| < 1e6; prices > 0; commissions >= 0; instants are integer nanoseconds, non-decreasing',
]
DEADLINE = {'quick': 1500, 'thorough': 3400}


def configs(tier):
    return brokerh.configs_for('C02', tier) + ladder02.configs(tier)


def make(cfg):
    return ladder02.make(cfg) if cfg['kind'] == 'ladder02' else brokerh.make(cfg)
