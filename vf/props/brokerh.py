"""Shared broker transition harness (C01, C02, C04, C05, C15).

Real code: SimulatedBroker (every public method, _execute_order, update), Portfolio, PortfolioEvent, PositionHandler,
Position, Transaction, Order, ZeroFeeModel, PercentFeeModel, SimulatedExchange.
A symbolic REACHABLE state is built through the public API (create 1-2 portfolios, subscribe symbolic amounts, create
positions by symbolic fills, leave symbolic orders pending, symbolic clock), then ONE operation with symbolic arguments
is executed and its delta specification asserted (what must change, and that nothing else does).  The harness keeps a
ghost ledger from the arguments it passed and the quotes its stub handed out - never from implementation fields.
Obligation names are prefixed with the property they belong to; each property's check reports its own.
"""
from fractions import Fraction
from vf.engine.driver import Harness
from vf.engine import core

ASSETS = ['EQ:A', 'EQ:B']


def configs_for(prop, tier):
    """builder shapes x operations.  shape = (portfolios, held assets per portfolio with #builder fills, pending orders)"""
    out = []

    def cfg(name, **kw):
        d = dict(kind='broker', oracle=prop, name=name, ports=1, held={'p1': {}}, pending=[], op='update', fee='percent', weight=100,
                 chunk=8, chunk_s=25, validate_every=3, twins=[])
        d.update(kw)
        return d
    H1 = {'p1': {'EQ:A': 1}}
    H1b = {'p1': {'EQ:A': 2}}
    H2 = {'p1': {'EQ:A': 1, 'EQ:B': 1}}
    H3 = {'p1': {'EQ:A': 1}, 'p2': {'EQ:B': 1}}
    upd_tw = ['filled', 'stayed_pending']
    if prop in ('C01', 'C02', 'C04', 'C05'):
        out.append(cfg('update_1pending_held', held=H1, pending=[('p1', 'EQ:A')], weight=300, twins=upd_tw,
                       bound='1 portfolio holding A (1 symbolic builder fill), 1 pending order in A, one update at a symbolic instant'))
        out.append(cfg('update_2pending', held={'p1': {}}, pending=[('p1', 'EQ:B'), ('p1', 'EQ:A')], weight=500, twins=upd_tw,
                       bound='1 empty portfolio, 2 pending orders submitted as (B, A) - not in asset order - of symbolic signed size, one update at a symbolic instant'))
        out.append(cfg('update_zero_fee', held=H1, pending=[('p1', 'EQ:B')], fee='zero', weight=200, twins=upd_tw,
                       bound='ZeroFeeModel; 1 portfolio holding A, 1 pending order in B'))
        out.append(cfg('update_2portfolios', ports=2, held={'p1': {'EQ:A': 1}, 'p2': {}}, pending=[('p1', 'EQ:A'), ('p2', 'EQ:B')], weight=900, twins=upd_tw,
                       bound='2 portfolios (p1 holds A, p2 empty), one pending order each, one update'))
        if tier == 'thorough':
            out.append(cfg('update_1pending_held2', held=H1b, pending=[('p1', 'EQ:A')], weight=3000, twins=upd_tw, validate_every=8,
                           bound='1 portfolio holding A after 2 symbolic builder fills (partial close / flip included), 1 pending order in A (3 fills in one asset)'))
            out.append(cfg('update_3pending', held={'p1': {}}, pending=[('p1', 'EQ:B'), ('p1', 'EQ:A'), ('p1', 'EQ:B')], weight=5000, twins=upd_tw, validate_every=10,
                           bound='1 empty portfolio, 3 pending orders (B, A, B), one update'))
            out.append(cfg('two_updates_1pending', held={'p1': {}}, pending=[('p1', 'EQ:A')], op='two_updates', weight=2500, twins=upd_tw, validate_every=5,
                           bound='1 empty portfolio, 1 pending order, a second order submitted between two updates at symbolic increasing instants'))
    H4 = {'p1': {'EQ:A': 1}, 'p2': {}}
    if prop in ('C01', 'C15', 'C02'):
        ops = ['subscribe_account', 'withdraw_account', 'subscribe_portfolio', 'withdraw_portfolio', 'submit', 'create_portfolio']
        if prop != 'C15':
            ops.append('getters')
        if prop == 'C02':
            ops = ['submit', 'getters']
        for op in ops:
            out.append(cfg('%s_on_2portfolios' % op, ports=2, held=H4, pending=[('p1', 'EQ:B')], op=op, weight=60,
                           twins=(['accepted', 'refused'] if op not in ('submit', 'getters') else ['accepted']),
                           bound='2 portfolios (p1 holds A and has a pending order, p2 empty); one %s with symbolic arguments (valid and invalid regions)' % op))
        if prop == 'C01' and tier == 'thorough':
            for op in ('subscribe_portfolio', 'withdraw_portfolio', 'getters'):
                out.append(cfg('%s_on_2portfolios_both_holding' % op, ports=2, held=H3, pending=[('p1', 'EQ:B')], op=op, weight=600, validate_every=6,
                               twins=['accepted'], bound='2 portfolios, both with holdings (p1: A, p2: B) and a pending order; one %s' % op))
    if prop == 'C15':
        for op in ('subscribe_portfolio', 'withdraw_portfolio'):
            out.append(cfg('%s_after_any_update' % op, ports=2, held=H4, pending=[], op=op, pre_update=True, weight=80, twins=['accepted', 'refused'],
                           bound='2 portfolios (p1 holds A); first an update at an arbitrary (possibly earlier, possibly refused) instant, then one %s with symbolic amount' % op))
        out.append(cfg('update_bad_marks', held=H2, pending=[], op='update_bad', weight=400, twins=['refused'], validate_every=5,
                       bound='1 portfolio holding A and B; update with arbitrary-sign mid prices and an arbitrary (possibly earlier) instant'))
        if tier == 'thorough':
            out.append(cfg('update_bad_marks_pending', held=H2, pending=[('p1', 'EQ:A')], op='update_bad', weight=4000, twins=['refused'], validate_every=10,
                           bound='1 portfolio holding A and B, 1 pending order; update with arbitrary-sign mid prices and an arbitrary (possibly earlier) instant'))
        out.append(cfg('update_earlier_no_positions', held={'p1': {}}, pending=[('p1', 'EQ:A')], op='update_bad', weight=200, twins=['refused'],
                       bound='1 portfolio without holdings, 1 pending order; update at an arbitrary (possibly earlier) instant'))
        for op in ('pf_subscribe', 'pf_withdraw', 'pf_transact', 'pf_mark', 'unknown_id', 'constructor'):
            out.append(cfg('%s' % op, ports=1, held=H1, pending=[('p1', 'EQ:A')], op=op, weight=50, twins=['refused'],
                           bound='1 portfolio holding A with a pending order; %s with symbolic arguments' % op))
    return out


def make(cfg):
    return BrokerStep(cfg)


class Snapshot:
    pass


def snapshot(br, pids):
    """every listed piece of state through the public getters (+ queue identities and history entries)"""
    s = dict(master=br.get_account_cash_balance('USD'), ports={})
    for pid in pids:
        if pid not in br.portfolios:
            s['ports'][pid] = None
            continue
        hold = br.get_portfolio_as_dict(pid)
        s['ports'][pid] = dict(
            cash=br.get_portfolio_cash_balance(pid), mv=br.get_portfolio_total_market_value(pid), eq=br.get_portfolio_total_equity(pid),
            holdings={a: dict(d) for a, d in hold.items()},
            queue=list(br.open_orders[pid].queue),
            history=[(e.dt, e.type, e.debit, e.credit, e.balance) for e in br.portfolios[pid].history])
    s['nports'] = len(br.portfolios)
    return s


class BrokerStep(Harness):
    obligation_timeout_ms = 45000
    feasibility_timeout_ms = 5000

    def __init__(self, cfg):
        super().__init__(cfg)
        self.prop = cfg['oracle']
        self.pids = ['p1', 'p2'][:cfg['ports']]

    # ---------------------------------------------------------------- inputs
    def inputs(self, mk):
        c = self.cfg
        d = dict(t0=mk.time('t0'), t1=mk.time('t1'), t2=mk.time('t2'), F0=mk.real('initial_funds'), Fsub=mk.real('account_subscription'),
                 sub={p: mk.real('sub_' + p) for p in self.pids}, cr=mk.real('commission_rate'), tr=mk.real('tax_rate'))
        d['bq'] = {p: {a: [mk.int('bq_%s_%s%d' % (p, a[-1], k)) for k in range(n)] for a, n in c['held'].get(p, {}).items()} for p in self.pids}
        d['pq'] = [mk.int('pq%d' % k) for k in range(len(c['pending']))]
        d['q_extra'] = mk.int('q_extra')
        # quotes handed out by the data handler stub: per update round u (0 = builder), per asset
        d['bid'] = [{a: mk.real('bid%d_%s' % (u, a[-1])) for a in ASSETS} for u in range(3)]
        d['ask'] = [{a: mk.real('ask%d_%s' % (u, a[-1])) for a in ASSETS} for u in range(3)]
        d['amt'] = mk.real('amount')
        d['flag'] = mk.flag('variant')
        return d

    def assume(self, L, i):
        from vf.engine.symtime import exchange_open_spec, DAY
        c = self.cfg
        cs = [L.ge(L.t(i['t0']), 0), L.le(L.t(i['t0']), 40 * DAY), L.ge(L.t(i['t1']), 0), L.le(L.t(i['t1']), 40 * DAY),
              L.ge(L.t(i['t2']), 0), L.le(L.t(i['t2']), 40 * DAY)]
        if L.symbolic:
            cs.append(exchange_open_spec(L.t(i['t0'])))           # builder fills happen at t0
        cs += [L.ge(i['F0'], 0), L.ge(i['Fsub'], 0), L.ge(i['cr'], 0), L.le(i['cr'], 1), L.ge(i['tr'], 0), L.le(i['tr'], 1)]
        tot = L.sum(i['sub'].values())
        cs += [L.ge(s, 0) for s in i['sub'].values()] + [L.le(tot, L.num(i['F0']) + L.num(i['Fsub']))]
        for p in self.pids:
            for a, qs in i['bq'][p].items():
                cs += [L.And(L.ne(q, 0), L.gt(q, -10 ** 6), L.lt(q, 10 ** 6)) for q in qs]
                # the builder leaves a position (net != 0): a closed position is simply "not held" and covered by other shapes
                cs.append(L.ne(L.sum(qs), 0))
        cs += [L.And(L.ne(q, 0), L.gt(q, -10 ** 6), L.lt(q, 10 ** 6)) for q in i['pq']] + [L.And(L.ne(i['q_extra'], 0), L.gt(i['q_extra'], -10 ** 6), L.lt(i['q_extra'], 10 ** 6))]
        for u in range(3):
            for a in ASSETS:
                if c['op'] == 'update_bad' and u == 1 and any(a in h for h in c['held'].values()):
                    # marks of held assets may have any sign (bid and ask on the same side of zero)
                    cs.append(L.ne(i['bid'][u][a], i['ask'][u][a]))
                    cs.append(L.Or(L.And(L.gt(i['bid'][u][a], 0), L.gt(i['ask'][u][a], 0)), L.And(L.lt(i['bid'][u][a], 0), L.lt(i['ask'][u][a], 0))))
                    cs += [L.gt(i['bid'][u][a], -10 ** 5), L.gt(i['ask'][u][a], -10 ** 5), L.lt(i['bid'][u][a], 10 ** 5), L.lt(i['ask'][u][a], 10 ** 5)]
                    continue
                cs += [L.gt(i['bid'][u][a], 0), L.gt(i['ask'][u][a], 0), L.ne(i['bid'][u][a], i['ask'][u][a]), L.lt(i['bid'][u][a], 10 ** 5), L.lt(i['ask'][u][a], 10 ** 5)]
        if c['op'] not in ('update_bad', 'pf_subscribe', 'pf_withdraw', 'pf_transact', 'pf_mark') and not c.get('pre_update'):
            cs.append(L.tle(i['t0'], i['t1']))
        cs.append(L.tle(i['t1'], i['t2']))
        return cs

    def friendly(self, L, i):
        cs = [L.le(i['F0'], 10 ** 6), L.le(i['Fsub'], 10 ** 6), L.le(i['cr'], Fraction(1, 10)), L.le(i['tr'], Fraction(1, 10))]
        cs += [L.And(L.ge(i['amt'], -10 ** 6), L.le(i['amt'], 10 ** 6))]
        for u in range(3):
            for a in ASSETS:
                cs += [L.And(L.ge(i['bid'][u][a], -500), L.le(i['bid'][u][a], 500)), L.And(L.ge(i['ask'][u][a], -500), L.le(i['ask'][u][a], 500))]
        allq = [q for p in self.pids for qs in i['bq'][p].values() for q in qs] + list(i['pq']) + [i['q_extra']]
        cs += [L.And(L.ge(q, -1000), L.le(q, 1000)) for q in allq]
        return cs

    # ---------------------------------------------------------------- scenario
    def run(self, i):
        from qstrader.broker.simulated_broker import SimulatedBroker
        from qstrader.broker.portfolio.portfolio import Portfolio
        from qstrader.exchange.simulated_exchange import SimulatedExchange
        from qstrader.broker.fee_model.percent_fee_model import PercentFeeModel
        from qstrader.broker.fee_model.zero_fee_model import ZeroFeeModel
        from qstrader.broker.transaction.transaction import Transaction
        from qstrader.execution.order import Order
        c = self.cfg
        rnd = {'u': 0}
        dh_calls = []

        class DH:
            def get_asset_latest_bid_ask_price(s, dt, a):
                dh_calls.append((rnd['u'], 'bid_ask', dt, a))
                return (i['bid'][rnd['u']][a], i['ask'][rnd['u']][a])

            def get_asset_latest_mid_price(s, dt, a):
                dh_calls.append((rnd['u'], 'mid', dt, a))
                return (i['bid'][rnd['u']][a] + i['ask'][rnd['u']][a]) / 2.0
        fee = PercentFeeModel(i['cr'], i['tr']) if c['fee'] == 'percent' else ZeroFeeModel()
        t0, t1, t2 = i['t0'], i['t1'], i['t2']
        br = SimulatedBroker(t0, SimulatedExchange(t0), DH(), account_id='acct', initial_funds=i['F0'], fee_model=fee)
        br.subscribe_funds_to_account(i['Fsub'])
        fills = []               # Transaction objects as they reach the portfolios (spy at the broker/portfolio boundary)
        for p in self.pids:
            br.create_portfolio(p, name='n' + p)
            br.subscribe_funds_to_portfolio(p, i['sub'][p])
            port = br.portfolios[p]
            orig = port.transact_asset

            def spy(txn, _orig=orig, _p=p):
                fills.append(dict(pid=_p, txn=txn, dt=txn.dt, asset=txn.asset, quantity=txn.quantity, price=txn.price, commission=txn.commission,
                                  round=rnd['u']))
                return _orig(txn)
            port.transact_asset = spy
        # builder: positions through real fills at t0 (one update per builder order so each sees the builder quote)
        border = []
        for p in self.pids:
            for a, qs in i['bq'][p].items():
                for q in qs:
                    o = Order(t0, a, q, order_id='b%d' % len(border))
                    border.append((p, o))
                    br.submit_order(p, o)
                    br.update(t0)
        nbuilder = len(fills)
        pending = []
        for k, (p, a) in enumerate(c['pending']):
            o = Order(t0, a, i['pq'][k], order_id='o%d' % k)
            pending.append((p, o))
            br.submit_order(p, o)
        rnd['u'] = 1
        pre_refused = None
        if c.get('pre_update'):
            # an earlier request of the history: a clock update at an arbitrary instant (it may be refused; either way it happened)
            try:
                br.update(t1)
                pre_refused = False
            except ValueError as e:
                if not _from_repo(e):
                    raise
                pre_refused = True
        before = snapshot(br, self.pids)
        res = dict(before=before, pending=pending, nbuilder=nbuilder, fills=fills, dh_calls=dh_calls, op=c['op'], raised=None, ret=None, extra={},
                   pre_refused=pre_refused)
        op = c['op']
        amt = i['amt']
        try:
            if op in ('update', 'update_bad'):
                br.update(t1)
            elif op == 'two_updates':
                br.update(t1)
                res['mid'] = snapshot(br, self.pids)
                o = Order(t1, 'EQ:B', i['q_extra'], order_id='x')
                res['extra_order'] = ('p1', o)
                br.submit_order('p1', o)
                res['mid2'] = snapshot(br, self.pids)
                rnd['u'] = 2
                br.update(t2)
            elif op == 'subscribe_account':
                br.subscribe_funds_to_account(amt)
            elif op == 'withdraw_account':
                br.withdraw_funds_from_account(amt)
            elif op == 'subscribe_portfolio':
                br.subscribe_funds_to_portfolio('p1', amt)
            elif op == 'withdraw_portfolio':
                br.withdraw_funds_from_portfolio('p2', amt)
            elif op == 'submit':
                o = Order(t0, 'EQ:A', i['q_extra'], order_id='x')
                res['extra_order'] = ('p2', o)
                br.submit_order('p2', o)
            elif op == 'create_portfolio':
                res['extra']['new_id'] = 'p1' if bool(i['flag']) else 'p3'
                br.create_portfolio(res['extra']['new_id'])
            elif op == 'getters':
                res['ret'] = dict(total_equity=br.get_account_total_equity(), total_mv=br.get_account_total_market_value(),
                                  cash_dict=dict(br.get_account_cash_balance()), listed=[p.portfolio_id for p in br.list_all_portfolios()])
            elif op == 'pf_subscribe':
                br.portfolios['p1'].subscribe_funds(t1, amt)
            elif op == 'pf_withdraw':
                br.portfolios['p1'].withdraw_funds(t1, amt)
            elif op == 'pf_transact':
                br.portfolios['p1'].transact_asset(Transaction('EQ:A', i['q_extra'], t1, i['ask'][1]['EQ:A'], 'x', commission=0.0))
            elif op == 'pf_mark':
                br.portfolios['p1'].update_market_value_of_asset('EQ:A', amt, t1)
            elif op == 'unknown_id':
                # every request kind that names a portfolio, with an id that does not exist
                errs = {}
                calls = dict(subscribe=lambda: br.subscribe_funds_to_portfolio('zz', 1.0), withdraw=lambda: br.withdraw_funds_from_portfolio('zz', 1.0),
                             submit=lambda: br.submit_order('zz', Order(t0, 'EQ:A', 1)), cash=lambda: br.get_portfolio_cash_balance('zz'),
                             mv=lambda: br.get_portfolio_total_market_value('zz'), equity=lambda: br.get_portfolio_total_equity('zz'),
                             as_dict=lambda: br.get_portfolio_as_dict('zz'), currency=lambda: br.get_account_cash_balance('XYZ'))
                for k, f in calls.items():
                    try:
                        f()
                        errs[k] = None
                    except Exception as e:
                        if not _from_repo(e):
                            raise
                        errs[k] = type(e).__name__
                res['extra']['errs'] = errs
            elif op == 'constructor':
                errs = {}
                ex_ = SimulatedExchange(t0)
                for k, f in dict(currency=lambda: SimulatedBroker(t0, ex_, DH(), base_currency='XYZ'),
                                 funds=lambda: SimulatedBroker(t0, ex_, DH(), initial_funds=amt)).items():
                    try:
                        f()
                        errs[k] = None
                    except Exception as e:
                        if not _from_repo(e):
                            raise
                        errs[k] = type(e).__name__
                res['extra']['errs'] = errs
        except Exception as e:
            if not _from_repo(e):
                raise
            res['raised'] = e
        res['after'] = snapshot(br, self.pids + (['p3'] if op == 'create_portfolio' else []))
        res['broker_portfolio_ids'] = sorted(br.portfolios.keys())
        return res

    # ---------------------------------------------------------------- oracle helpers
    def _fee(self, L, i, price, q):
        if self.cfg['fee'] == 'zero':
            return 0
        return (L.num(i['cr']) + L.num(i['tr'])) * L.abs(L.round0(L.num(price) * L.num(q)))

    def _same_state(self, L, b, a, tag, obl, pids=None, skip=()):
        """every listed piece of state term-for-term equal before and after"""
        if 'master' not in skip:
            obl.append((tag + ':master_cash_unchanged', L.ne(a['master'], b['master'])))
        for p in (pids or self.pids):
            self._same_port(L, b['ports'][p], a['ports'][p], '%s:%s' % (tag, p), obl)

    def _same_port(self, L, pb, pa, tag, obl, cash=True, holdings=True, queue=True, history=True, marks=True, equity=True):
        if cash:
            obl.append((tag + ':cash_unchanged', L.ne(pa['cash'], pb['cash'])))
        if holdings:
            obl.append((tag + ':held_assets_unchanged', L.bool(list(pa['holdings']) != list(pb['holdings']))))
            for x in pb['holdings']:
                if x in pa['holdings']:
                    keys = ['quantity', 'realised_pnl'] + (['market_value', 'unrealised_pnl', 'total_pnl'] if marks else [])
                    diffs = [L.ne(pa['holdings'][x][k], pb['holdings'][x][k]) for k in keys]
                    obl.append(('%s:holding_report_unchanged[%s]' % (tag, x), L.Or(*diffs)))
            if marks:
                obl.append((tag + ':market_value_unchanged', L.ne(pa['mv'], pb['mv'])))
                if equity:
                    obl.append((tag + ':equity_unchanged', L.ne(pa['eq'], pb['eq'])))
        if queue:
            obl.append((tag + ':pending_orders_unchanged', L.bool(len(pa['queue']) != len(pb['queue']) or any(x is not y for x, y in zip(pa['queue'], pb['queue'])))))
        if history:
            same_len = len(pa['history']) == len(pb['history'])
            obl.append((tag + ':history_unchanged', L.bool(not same_len)))
            if same_len:
                for (d1, ty1, de1, cr1, ba1), (d2, ty2, de2, cr2, ba2) in zip(pa['history'], pb['history']):
                    if ty1 != ty2 or d1 is not d2:
                        obl.append((tag + ':history_unchanged', L.true))

    def _event_is(self, L, ev, ty, debit, credit, balance, tag, obl):
        d, t, de, cr, ba = ev
        obl.append((tag + ':event_type', L.bool(t != ty)))
        obl.append((tag + ':event_amounts_are_true_values_rounded_to_cents',
                    L.Or(L.ne(de, debit), L.ne(cr, credit), L.ne(ba, balance))))

    # ---------------------------------------------------------------- oracle
    def oracle(self, L, i, out):
        if out.kind != 'ok':
            return [('%s:scenario_does_not_raise_unexpectedly' % self.prop, L.true)]
        o = out.value
        op = o['op']
        obl = []
        b, a = o['before'], o['after']
        # builder sanity through the ghost ledger: cash, holdings after the builder (C01/C02 on histories of builder length)
        self._builder_ghost(L, i, o, obl)
        getattr(self, '_op_' + op)(L, i, o, b, a, obl)
        pref = self.prop + ':'
        return [(n, f) for n, f in obl if n.startswith(pref)]

    def _builder_ghost(self, L, i, o, obl):
        R = L.num
        b = o['before']
        master = R(i['F0']) + R(i['Fsub'])
        for p in self.pids:
            master = master - R(i['sub'][p])
        obl.append(('C01:builder:master_cash_is_funds_minus_transfers', L.ne(b['master'], master)))
        # builder order sequence (every builder order is followed by an update at t0, which re-marks every position held so far)
        seq = [(p, a_, k) for p in self.pids for a_, qs in i['bq'][p].items() for k in range(len(qs))]
        for p in self.pids:
            cash = R(i['sub'][p])
            pb = b['ports'][p]
            hist = pb['history']
            exp_events = 0
            if True:
                # subscription event (amount a, even when 0) recorded by subscribe_funds
                exp_events += 1
                if len(hist) >= 1:
                    self._event_is(L, hist[0], 'subscription', 0, L.round2(i['sub'][p]), L.round2(cash), 'C01:builder:%s:subscription' % p, obl)
            nfill = 0
            for a_, qs in i['bq'][p].items():
                net = 0
                last_price = None
                for q in qs:
                    price = L.ite(L.gt(q, 0), i['ask'][0][a_], i['bid'][0][a_])
                    cost = price * R(q) + self._fee(L, i, price, q)
                    cash = cash - cost
                    net = net + R(q)
                    last_price = price
                    nfill += 1
                    k = exp_events
                    exp_events += 1
                    if len(hist) > k:
                        self._event_is(L, hist[k], 'asset_transaction', L.ite(L.gt(q, 0), L.round2(cost), 0), L.ite(L.gt(q, 0), 0, -L.round2(cost)),
                                       L.round2(cash), 'C01:builder:%s:fill%d' % (p, nfill), obl)
                held = pb['holdings'].get(a_)
                obl.append(('C02:builder:%s:%s:reported_iff_net_nonzero' % (p, a_), L.bool(held is None)))
                if held is not None:
                    obl.append(('C02:builder:%s:%s:quantity_is_sum_of_fills' % (p, a_), L.ne(held['quantity'], net)))
                    last_step = max(n for n, sq in enumerate(seq) if sq[0] == p and sq[1] == a_)
                    if last_step < len(seq) - 1:      # a later builder update marked it at that round's mid price
                        last_price = (R(i['bid'][0][a_]) + R(i['ask'][0][a_])) / 2
                    obl.append(('C02:builder:%s:%s:valued_at_most_recent_price' % (p, a_), L.ne(held['market_value'], net * last_price)))
            obl.append(('C01:builder:%s:cash_is_transfers_minus_fill_costs' % p, L.ne(pb['cash'], cash)))
            obl.append(('C01:builder:%s:one_history_event_per_movement' % p, L.bool(len(hist) != exp_events)))
            mv = L.sum([h['market_value'] for h in pb['holdings'].values()]) if pb['holdings'] else 0
            obl.append(('C02:builder:%s:market_value_is_sum_and_equity_is_cash_plus_value' % p,
                        L.Or(L.ne(pb['mv'], mv), L.ne(pb['eq'], L.num(pb['cash']) + L.num(pb['mv'])))))
            obl.append(('C02:builder:%s:no_unexpected_asset' % p, L.bool(any(x not in i['bq'][p] for x in pb['holdings']))))

    # ---- update
    def _op_update(self, L, i, o, b, a, obl, t=None, rnd=1, before=None, after=None, pend=None, tagp='update'):
        from vf.engine.symtime import exchange_open_spec
        R = L.num
        t = t if t is not None else i['t1']
        b = before or b
        a = after or a
        pend = pend if pend is not None else o['pending']
        if o['raised'] is not None:
            obl.append(('C04:%s:valid_update_does_not_raise' % tagp, L.true))
            obl.append(('C01:%s:valid_update_does_not_raise' % tagp, L.true))
            return
        is_open = exchange_open_spec(L.t(t)) if L.symbolic else L.bool(_open_concrete(t))
        new_fills = [f for f in o['fills'][o['nbuilder']:] if f['round'] == rnd]
        obl.append(('C01:%s:master_cash_untouched' % tagp, L.ne(a['master'], b['master'])))
        for p in self.pids:
            pb, pa = b['ports'][p], a['ports'][p]
            mine = [od for (pp, od) in pend if pp == p]
            pf = [f for f in new_fills if f['pid'] == p]
            filled = len(pa['queue']) == 0 and len(pf) == len(mine)
            untouched = len(pa['queue']) == len(mine) and all(x is y for x, y in zip(pa['queue'], mine)) and len(pf) == 0
            tag = '%s:%s' % (tagp, p)
            if mine:
                # C04: fills exactly in exchange hours; otherwise everything stays pending
                obl.append(('C04:%s:orders_fill_iff_exchange_open' % tag, L.Or(L.And(is_open, L.bool(not filled)), L.And(L.Not(is_open), L.bool(not untouched)))))
            else:
                obl.append(('C04:%s:no_order_no_fill' % tag, L.bool(len(pf) != 0 or len(pa['queue']) != 0)))
            # C04: each pending order exactly one transaction with its full signed quantity at time t; sells first, stable
            if pf:
                ids = [f['txn'].order_id for f in pf]
                obl.append(('C04:%s:each_order_filled_exactly_once' % tag, L.bool(sorted(ids) != sorted(od.order_id for od in mine))))
                for f in pf:
                    od = next((x for x in mine if x.order_id == f['txn'].order_id), None)
                    if od is not None:
                        obl.append(('C04:%s:filled_in_full[%s]' % (tag, od.order_id), L.ne(f['quantity'], od.quantity)))
                        obl.append(('C04:%s:fill_asset[%s]' % (tag, od.order_id), L.bool(f['asset'] != od.asset)))
                pos = {od.order_id: n for n, od in enumerate(mine)}
                for x, y in zip(pf, pf[1:]):
                    obl.append(('C04:%s:sells_before_buys' % tag, L.And(L.gt(x['quantity'], 0), L.lt(y['quantity'], 0))))
                    same_side = L.Or(L.And(L.gt(x['quantity'], 0), L.gt(y['quantity'], 0)), L.And(L.lt(x['quantity'], 0), L.lt(y['quantity'], 0)))
                    if x['txn'].order_id in pos and y['txn'].order_id in pos:
                        obl.append(('C04:%s:same_side_in_submission_order' % tag, L.And(same_side, L.bool(pos[x['txn'].order_id] > pos[y['txn'].order_id]))))
            # C05 + C01 + C02 ghost for this portfolio
            cash = R(pb['cash'])
            qty = {x: R(d['quantity']) for x, d in pb['holdings'].items()}
            lastp = {}
            hist_new = pa['history'][len(pb['history']):]
            obl.append(('C01:%s:one_history_event_per_fill' % tag, L.bool(len(hist_new) != len(pf))))
            for n, f in enumerate(pf):
                x = f['asset']
                bid, ask = i['bid'][rnd][x], i['ask'][rnd][x]
                price = L.ite(L.gt(f['quantity'], 0), ask, bid)
                com = self._fee(L, i, price, f['quantity'])
                obl.append(('C05:%s:fill%d:stamped_with_update_time' % (tag, n), L.Not(L.teq(f['dt'], t))))
                obl.append(('C05:%s:fill%d:priced_at_ask_for_buy_bid_for_sell' % (tag, n), L.ne(f['price'], price)))
                obl.append(('C05:%s:fill%d:commission_is_fee_model_on_rounded_consideration' % (tag, n), L.ne(f['commission'], com)))
                obl.append(('C05:%s:fill%d:commission_not_negative' % (tag, n), L.lt(f['commission'], 0)))
                asked = [cx for cx in o['dh_calls'] if cx[0] == rnd and cx[1] == 'bid_ask' and cx[3] == x]
                obl.append(('C05:%s:fill%d:quote_requested_for_update_time' % (tag, n), L.bool(not asked) if not asked else L.Or(*[L.Not(L.teq(cx[2], t)) for cx in asked])))
                cost = R(price) * R(f['quantity']) + com
                cash = cash - cost
                qty[x] = qty.get(x, 0) + R(f['quantity'])
                lastp[x] = price
                if n < len(hist_new):
                    isbuy = L.gt(f['quantity'], 0)
                    self._event_is(L, hist_new[n], 'asset_transaction', L.ite(isbuy, L.round2(cost), 0), L.ite(isbuy, 0, -L.round2(cost)), L.round2(cash),
                                   'C01:%s:fill%d' % (tag, n), obl)
                    obl.append(('C05:%s:fill%d:history_event_stamped_with_update_time' % (tag, n), L.Not(L.teq(hist_new[n][0], t))))
            obl.append(('C05:%s:cash_debit_is_price_times_quantity_plus_commission' % tag, L.ne(pa['cash'], cash)))
            obl.append(('C01:%s:cash_changes_only_by_fill_costs' % tag, L.ne(pa['cash'], cash)))
            # C02: holdings = net of fills; valued at the latest price (fill price if filled now, else this update's mid)
            for x in sorted(set(list(qty) + list(pa['holdings']))):
                net = qty.get(x, 0)
                rep = pa['holdings'].get(x)
                obl.append(('C02:%s:%s:reported_iff_net_nonzero' % (tag, x), L.Or(L.And(L.ne(net, 0), L.bool(rep is None)), L.And(L.eq(net, 0), L.bool(rep is not None)))))
                if rep is not None:
                    obl.append(('C02:%s:%s:quantity_is_sum_of_fills' % (tag, x), L.ne(rep['quantity'], net)))
                    mark = lastp.get(x, (R(i['bid'][rnd][x]) + R(i['ask'][rnd][x])) / 2)
                    obl.append(('C02:%s:%s:valued_at_most_recent_price' % (tag, x), L.ne(rep['market_value'], net * R(mark))))
            mv = L.sum([h['market_value'] for h in pa['holdings'].values()]) if pa['holdings'] else 0
            obl.append(('C02:%s:market_value_is_sum_and_equity_is_cash_plus_value' % tag, L.Or(L.ne(pa['mv'], mv), L.ne(pa['eq'], R(pa['cash']) + R(pa['mv'])))))

    def _op_two_updates(self, L, i, o, b, a, obl):
        if o['raised'] is not None:
            obl.append(('C04:two_updates:valid_updates_do_not_raise', L.true))
            return
        self._op_update(L, i, o, b, a, obl, t=i['t1'], rnd=1, before=b, after=o['mid'], pend=o['pending'], tagp='update1')
        # submit changes only the queue
        self._submit_delta(L, o['mid'], o['mid2'], o['extra_order'], 'submit_between', obl)
        still = [(p, od) for p in self.pids for od in o['mid2']['ports'][p]['queue']]
        self._op_update(L, i, o, b, a, obl, t=i['t2'], rnd=2, before=o['mid2'], after=a, pend=still, tagp='update2')

    def _submit_delta(self, L, b, a, extra, tag, obl):
        p, od = extra
        for prop in ('C01', 'C04'):
            obl.append(('%s:%s:master_cash_unchanged' % (prop, tag), L.ne(a['master'], b['master'])))
        for pp in self.pids:
            pb, pa = b['ports'][pp], a['ports'][pp]
            for prop in ('C01', 'C04', 'C02'):
                ob2 = []
                self._same_port(L, pb, pa, '%s:%s:%s' % (prop, tag, pp), ob2, queue=(pp != p))
                obl.extend(ob2)
            if pp == p:
                ok = len(pa['queue']) == len(pb['queue']) + 1 and all(x is y for x, y in zip(pa['queue'], pb['queue'])) and pa['queue'][-1] is od
                obl.append(('C04:%s:order_appended_to_the_queue' % tag, L.bool(not ok)))

    def _op_submit(self, L, i, o, b, a, obl):
        if o['raised'] is not None:
            obl.append(('C04:submit:valid_submission_does_not_raise', L.true))
            obl.append(('C15:submit:valid_submission_does_not_raise', L.true))
            return
        self._submit_delta(L, b, a, o['extra_order'], 'submit', obl)
        obl.append(('C15:submit:accepted', L.false))

    # ---- transfers
    def _refusal(self, L, o, b, a, tag, invalid, etype, obl, skip=()):
        """op raised: must be the documented type, only for invalid requests, and nothing changed"""
        e = o['raised']
        obl.append(('C15:%s:refusal_is_%s' % (tag, etype.__name__), L.bool(type(e) is not etype)))
        obl.append(('C15:%s:valid_request_refused' % tag, L.Not(invalid)))
        obl.append(('C01:%s:valid_request_refused' % tag, L.Not(invalid)))
        ob2 = []
        self._same_state(L, b, a, 'C15:%s:refused' % tag, ob2)
        obl.extend(ob2)

    def _op_subscribe_account(self, L, i, o, b, a, obl):
        amt = i['amt']
        invalid = L.lt(amt, 0)
        if o['raised'] is not None:
            return self._refusal(L, o, b, a, 'subscribe_account', invalid, ValueError, obl)
        obl.append(('C15:subscribe_account:invalid_request_accepted', invalid))
        obl.append(('C01:subscribe_account:master_plus_amount', L.ne(a['master'], L.num(b['master']) + L.num(amt))))
        for p in self.pids:
            self._same_port(L, b['ports'][p], a['ports'][p], 'C01:subscribe_account:%s' % p, obl)

    def _op_withdraw_account(self, L, i, o, b, a, obl):
        amt = i['amt']
        invalid = L.Or(L.lt(amt, 0), L.gt(amt, b['master']))
        if o['raised'] is not None:
            return self._refusal(L, o, b, a, 'withdraw_account', invalid, ValueError, obl)
        obl.append(('C15:withdraw_account:invalid_request_accepted', invalid))
        obl.append(('C01:withdraw_account:master_minus_amount', L.ne(a['master'], L.num(b['master']) - L.num(amt))))
        for p in self.pids:
            self._same_port(L, b['ports'][p], a['ports'][p], 'C01:withdraw_account:%s' % p, obl)

    def _transfer(self, L, i, o, b, a, obl, p, sign, tag):
        """sign=+1: master -> portfolio p; -1: portfolio p -> master"""
        R = L.num
        amt = i['amt']
        avail = b['master'] if sign > 0 else b['ports'][p]['cash']
        invalid = L.Or(L.lt(amt, 0), L.gt(amt, avail))
        if self.cfg.get('pre_update'):
            # the broker stamps the transfer with its own clock (the instant of the last update request, t1); the portfolio
            # refuses a timestamp earlier than its clock (t0, or t1 if that update filled something)
            invalid = L.Or(invalid, L.tlt(i['t1'], i['t0']))
        if o['raised'] is not None:
            return self._refusal(L, o, b, a, tag, invalid, ValueError, obl)
        obl.append(('C15:%s:invalid_request_accepted' % tag, invalid))
        pb, pa = b['ports'][p], a['ports'][p]
        obl.append(('C01:%s:master_moves_by_amount' % tag, L.ne(a['master'], R(b['master']) - sign * R(amt))))
        obl.append(('C01:%s:portfolio_moves_by_amount' % tag, L.ne(pa['cash'], R(pb['cash']) + sign * R(amt))))
        obl.append(('C01:%s:transfer_is_zero_sum' % tag, L.ne(R(a['master']) + R(pa['cash']), R(b['master']) + R(pb['cash']))))
        self._same_port(L, pb, pa, 'C01:%s:%s' % (tag, p), obl, cash=False, history=False, equity=False)
        obl.append(('C01:%s:equity_moves_with_cash_only' % tag, L.ne(pa['eq'], R(pb['eq']) + sign * R(amt))))
        new = pa['history'][len(pb['history']):]
        obl.append(('C01:%s:exactly_one_history_event' % tag, L.bool(len(new) != 1)))
        if len(new) == 1:
            if sign > 0:
                self._event_is(L, new[0], 'subscription', 0, L.round2(amt), L.round2(pa['cash']), 'C01:%s' % tag, obl)
            else:
                self._event_is(L, new[0], 'withdrawal', L.round2(amt), 0, L.round2(pa['cash']), 'C01:%s' % tag, obl)
        for pp in self.pids:
            if pp != p:
                self._same_port(L, b['ports'][pp], a['ports'][pp], 'C01:%s:other_portfolio_%s' % (tag, pp), obl)

    def _op_subscribe_portfolio(self, L, i, o, b, a, obl):
        self._transfer(L, i, o, b, a, obl, 'p1', +1, 'subscribe_portfolio')

    def _op_withdraw_portfolio(self, L, i, o, b, a, obl):
        self._transfer(L, i, o, b, a, obl, 'p2', -1, 'withdraw_portfolio')

    def _op_create_portfolio(self, L, i, o, b, a, obl):
        nid = o['extra']['new_id']
        dup = nid in self.pids
        if o['raised'] is not None:
            self._refusal(L, o, b, a, 'create_portfolio', L.bool(dup), ValueError, obl)
            obl.append(('C15:create_portfolio:refused:no_portfolio_added', L.bool(o['broker_portfolio_ids'] != sorted(self.pids))))
            return
        obl.append(('C15:create_portfolio:duplicate_id_accepted', L.bool(dup)))
        self._same_state(L, b, a, 'C01:create_portfolio', obl)
        new = a['ports'].get('p3')
        obl.append(('C01:create_portfolio:new_portfolio_is_empty', L.bool(new is None) if new is None else
                    L.Or(L.ne(new['cash'], 0), L.bool(len(new['holdings']) != 0 or len(new['queue']) != 0 or len(new['history']) != 0))))

    def _op_getters(self, L, i, o, b, a, obl):
        R = L.num
        if o['raised'] is not None:
            obl.append(('C01:getters:account_totals_always_obtainable', L.true))
            return
        self._same_state(L, b, a, 'C01:getters', obl)
        r = o['ret']
        for key, field in (('total_equity', 'eq'), ('total_mv', 'mv')):
            d = r[key]
            obl.append(('C01:getters:%s:one_entry_per_portfolio_plus_master' % key, L.bool(sorted(d.keys()) != sorted(self.pids + ['master']))))
            if sorted(d.keys()) == sorted(self.pids + ['master']):
                tot = 0
                for p in self.pids:
                    obl.append(('C01:getters:%s:%s_equals_portfolio_getter' % (key, p), L.ne(d[p], b['ports'][p][field])))
                    tot = tot + R(b['ports'][p][field])
                obl.append(('C01:getters:%s:master_is_sum_of_portfolios' % key, L.ne(d['master'], tot)))
        obl.append(('C01:getters:cash_dict_reports_master_cash', L.ne(r['cash_dict']['USD'], b['master'])))
        obl.append(('C01:getters:portfolios_listed_in_id_order', L.bool(r['listed'] != sorted(self.pids))))
        for p in self.pids:
            obl.append(('C02:getters:%s:equity_is_cash_plus_market_value' % p, L.ne(b['ports'][p]['eq'], R(b['ports'][p]['cash']) + R(b['ports'][p]['mv']))))

    # ---- refused updates (C15)
    def _op_update_bad(self, L, i, o, b, a, obl):
        held = list(b['ports']['p1']['holdings'])
        mids = {x: (L.num(i['bid'][1][x]) + L.num(i['ask'][1][x])) / 2 for x in ASSETS}
        earlier = L.tlt(i['t1'], i['t0'])
        if o['raised'] is None:
            # accepted: then it must have been a valid request (no earlier time with something to stamp, no negative mark for a held asset)
            bad_mark = L.Or(*[L.lt(mids[x], 0) for x in held]) if held else L.false
            obl.append(('C15:update:negative_mark_accepted', bad_mark))
            obl.append(('C15:update:earlier_timestamp_accepted', L.And(earlier, L.bool(len(held) > 0))))
            return
        e = o['raised']
        obl.append(('C15:update:refusal_is_ValueError', L.bool(type(e) is not ValueError)))
        bad = [L.le(mids[x], 0) for x in held]
        obl.append(('C15:update:valid_update_refused', L.Not(L.Or(earlier, *bad))))
        # nothing may have changed; report WHAT changed so that a known finding can be told from a new one
        pb, pa = b['ports']['p1'], a['ports']['p1']
        obl.append(('C15:update:refused:master_cash_changed', L.ne(a['master'], b['master'])))
        obl.append(('C15:update:refused:portfolio_cash_changed', L.ne(pa['cash'], pb['cash'])))
        obl.append(('C15:update:refused:pending_orders_changed', L.bool(len(pa['queue']) != len(pb['queue']) or any(x is not y for x, y in zip(pa['queue'], pb['queue'])))))
        obl.append(('C15:update:refused:history_changed', L.bool(len(pa['history']) != len(pb['history']))))
        obl.append(('C15:update:refused:held_assets_changed', L.bool(list(pa['holdings']) != list(pb['holdings']))))
        for n, x in enumerate(held):
            if x in pa['holdings']:
                why = 'negative_mark_of_a_later_position' if n + 1 < len(held) else 'other'
                obl.append(('C15:update:refused:quantity_changed[%s]' % x, L.ne(pa['holdings'][x]['quantity'], pb['holdings'][x]['quantity'])))
                obl.append(('C15:update:refused:market_value_changed[position %d of %d]' % (n + 1, len(held)),
                            L.ne(pa['holdings'][x]['market_value'], pb['holdings'][x]['market_value'])))

    # ---- Portfolio-level requests (C15)
    def _pf(self, L, i, o, b, a, obl, tag, invalid):
        if o['raised'] is not None:
            e = o['raised']
            obl.append(('C15:%s:refusal_is_ValueError' % tag, L.bool(type(e) is not ValueError)))
            obl.append(('C15:%s:valid_request_refused' % tag, L.Not(invalid)))
            self._same_state(L, b, a, 'C15:%s:refused' % tag, obl)
        else:
            obl.append(('C15:%s:invalid_request_accepted' % tag, invalid))

    def _op_pf_subscribe(self, L, i, o, b, a, obl):
        self._pf(L, i, o, b, a, obl, 'portfolio.subscribe_funds', L.Or(L.lt(i['amt'], 0), L.tlt(i['t1'], i['t0'])))

    def _op_pf_withdraw(self, L, i, o, b, a, obl):
        self._pf(L, i, o, b, a, obl, 'portfolio.withdraw_funds', L.Or(L.lt(i['amt'], 0), L.tlt(i['t1'], i['t0']), L.gt(i['amt'], b['ports']['p1']['cash'])))

    def _op_pf_transact(self, L, i, o, b, a, obl):
        self._pf(L, i, o, b, a, obl, 'portfolio.transact_asset', L.tlt(i['t1'], i['t0']))

    def _op_pf_mark(self, L, i, o, b, a, obl):
        # (a zero price is refused by the position itself; the statement lists the negative mark, so 0 is left either way)
        if o['raised'] is not None:
            self._pf(L, i, o, b, a, obl, 'portfolio.update_market_value_of_asset', L.Or(L.le(i['amt'], 0), L.tlt(i['t1'], i['t0'])))
        else:
            self._pf(L, i, o, b, a, obl, 'portfolio.update_market_value_of_asset', L.Or(L.lt(i['amt'], 0), L.tlt(i['t1'], i['t0'])))

    def _op_unknown_id(self, L, i, o, b, a, obl):
        want = dict(subscribe='KeyError', withdraw='KeyError', submit='KeyError', cash='ValueError', mv='KeyError', equity='KeyError',
                    as_dict='KeyError', currency='ValueError')
        for k, w in want.items():
            obl.append(('C15:unknown_id:%s_refused_with_%s' % (k, w), L.bool(o['extra']['errs'].get(k) != w)))
        self._same_state(L, b, a, 'C15:unknown_id:refused', obl)
        obl.append(('C15:unknown_id:no_portfolio_added', L.bool(o['broker_portfolio_ids'] != sorted(self.pids))))

    def _op_constructor(self, L, i, o, b, a, obl):
        errs = o['extra']['errs']
        obl.append(('C15:constructor:unsupported_currency_refused_with_ValueError', L.bool(errs.get('currency') != 'ValueError')))
        neg = L.lt(i['amt'], 0)
        obl.append(('C15:constructor:negative_initial_funds_refused_iff_negative',
                    L.Or(L.And(neg, L.bool(errs.get('funds') != 'ValueError')), L.And(L.Not(neg), L.bool(errs.get('funds') is not None)))))
        self._same_state(L, b, a, 'C15:constructor:existing_broker_untouched', obl)

    # ---------------------------------------------------------------- twins / observation
    def twins(self, L, i, out):
        if out.kind != 'ok':
            return []
        o = out.value
        new_fills = o['fills'][o['nbuilder']:]
        tw = [('filled', L.bool(len(new_fills) > 0)), ('stayed_pending', L.bool(len(new_fills) == 0 and any(len(o['after']['ports'][p]['queue']) > 0 for p in self.pids))),
              ('accepted', L.bool(o['raised'] is None)), ('refused', L.bool(o['raised'] is not None or any(v for v in o['extra'].get('errs', {}).values())))]
        return tw

    def observe(self, i, out):
        if out.kind != 'ok':
            return (out.kind, type(out.value).__name__)
        o = out.value

        def snap(s):
            return dict(master=s['master'], ports={p: (None if d is None else dict(cash=d['cash'], mv=d['mv'], eq=d['eq'], holdings=d['holdings'], nq=len(d['queue']),
                                                                                     history=[(h[1], h[2], h[3], h[4]) for h in d['history']]))
                                                   for p, d in s['ports'].items()})
        return dict(before=snap(o['before']), after=snap(o['after']), raised=type(o['raised']).__name__ if o['raised'] is not None else None,
                    fills=[(f['pid'], f['asset'], f['quantity'], f['price'], f['commission']) for f in o['fills']], errs=o['extra'].get('errs'))

    def describe(self, i, out):
        if out.kind != 'ok':
            return str(out.value)[:300]
        d = self.observe(i, out)
        d['operation'] = out.value['op']
        if out.value['raised'] is not None:
            d['message'] = str(out.value['raised'])[:200]
        return d


def _from_repo(e):
    from vf.engine.driver import _origin_in_repo
    return _origin_in_repo(e)


def _open_concrete(t):
    import datetime
    return t.weekday() <= 4 and datetime.time(14, 30) <= t.time() < datetime.time(21, 0)
