"""C03 - position P&L reconciles exactly to the cash flows of its fills.

Real code: Position (constructor, open_from_transaction, transact, _transact_buy/_sell, update_current_price,
every P&L property), Transaction.
Harness (i)  'ladder': k symbolic fills + a final symbolic mark; the explorer branches over every sign pattern
             of the fills and of the running net quantity; a path on which the position closes ends there.
Harness (ii) 'step': one transact from an ARBITRARY valid position built with the public constructor; proves
             the ledger invariant (avg*qty = sum of considerations per side, commissions per side, quantities per
             side) is preserved, so the identities hold after histories of any length.
"""
from vf.engine.driver import Harness

EXPLANATION = ('k-fill ladders (every sign pattern of fills and running net) and one inductive step from an arbitrary valid '
               'position, on the real Position/Transaction classes with symbolic integer quantities and real prices/commissions; '
               'z3 proves per path the P&L identities of the statement as rational identities.')
ASSUMPTIONS = [
    'exact real arithmetic stands in for IEEE doubles (the statement\'s "long random sequences in floating point" part is outside)',
    'fill quantities are non-zero integers, prices > 0, commissions >= 0, timestamps non-decreasing (concrete)',
    'a position whose net quantity reaches zero is discarded (PositionHandler semantics): the ladder ends there',
    'np.copysign / math.floor / int shims of DESIGN.md section 1.3',
    'step harness: the pre-state is any Position(bq>=0, sq>=0, bq!=sq, averages >0 on a side with quantity, commissions>=0)',
]
DEADLINE = {'quick': 1200, 'thorough': 3300}


def configs(tier):
    ks = [1, 2, 3] if tier == 'quick' else [1, 2, 3, 4, 5, 6]
    out = [dict(name='ladder_k%d' % k, kind='ladder', k=k, weight=10 ** k, chunk=6, chunk_s=25,
                bound='%d symbolic fills (q int != 0, p>0, c>=0) then one symbolic mark' % k,
                twins=(['realised_nonzero', 'flipped'] if k >= 2 else [])) for k in ks]
    out.append(dict(name='step_any_position', kind='step', weight=500, chunk=6, chunk_s=25,
                    bound='one transact from an arbitrary valid Position (unbounded history length by induction)',
                    twins=['closes', 'flips']))
    return out


def make(cfg):
    return Ladder(cfg) if cfg['kind'] == 'ladder' else Step(cfg)


def _ts(j):
    import pandas as pd
    return pd.Timestamp('2020-01-06 15:00', tz='UTC') + pd.Timedelta(minutes=j)


def snap(pos):
    return dict(net=pos.net_quantity, mv=pos.market_value, realised=pos.realised_pnl, unrealised=pos.unrealised_pnl,
                total=pos.total_pnl, bq=pos.buy_quantity, sq=pos.sell_quantity, price=pos.current_price,
                tb=pos.total_bought, tsold=pos.total_sold, bc=pos.buy_commission, sc=pos.sell_commission)


def pnl_identities(L, s, tag, S_pq, S_c, net, buys, sells, last_price, obl):
    """the statement's identities on one snapshot; buys/sells = (sum p|q|, sum c, sum |q|) per side (ghost)"""
    R = L.num
    obl.append(('%s:net_is_sum_of_fills' % tag, L.ne(s['net'], net)))
    obl.append(('%s:total_is_realised_plus_unrealised' % tag, L.ne(s['total'], R(s['realised']) + R(s['unrealised']))))
    obl.append(('%s:total_is_mv_minus_cashflows' % tag, L.ne(s['total'], R(s['mv']) - S_pq - S_c)))
    obl.append(('%s:mv_is_price_times_net' % tag, L.ne(s['mv'], R(last_price) * net)))
    bpq, bc, bq = buys
    spq, sc, sq = sells
    # average cost of the open side including that side's commission
    long_avg = (bpq + bc) / L.ite(L.eq(bq, 0), 1, bq)
    short_avg = (spq - sc) / L.ite(L.eq(sq, 0), 1, sq)
    obl.append(('%s:unrealised_long' % tag, L.And(L.gt(net, 0), L.ne(s['unrealised'], (R(last_price) - long_avg) * net))))
    obl.append(('%s:unrealised_short' % tag, L.And(L.lt(net, 0), L.ne(s['unrealised'], (R(last_price) - short_avg) * net))))
    obl.append(('%s:unrealised_flat' % tag, L.And(L.eq(net, 0), L.ne(s['unrealised'], 0))))


class Ladder(Harness):
    prop = 'C03'
    obligation_timeout_ms = 60000

    def inputs(self, mk):
        k = self.cfg['k']
        return dict(q=[mk.int('q%d' % j) for j in range(k)], p=[mk.real('p%d' % j) for j in range(k)],
                    c=[mk.real('c%d' % j) for j in range(k)], m=mk.real('mark'))

    def assume(self, L, i):
        return [L.ne(q, 0) for q in i['q']] + [L.gt(p, 0) for p in i['p']] + [L.ge(c, 0) for c in i['c']] + [L.gt(i['m'], 0)]

    def friendly(self, L, i):
        return [L.And(L.ge(q, -1000), L.le(q, 1000)) for q in i['q']] + [L.And(L.ge(p, 1), L.le(p, 500)) for p in i['p']] + \
               [L.le(c, 50) for c in i['c']] + [L.And(L.ge(i['m'], 1), L.le(i['m'], 500))]

    def run(self, i):
        from qstrader.broker.portfolio.position import Position
        from qstrader.broker.transaction.transaction import Transaction
        pos = None
        snaps = []
        for j in range(self.cfg['k']):
            t = Transaction('EQ:A', i['q'][j], _ts(j), i['p'][j], 'o%d' % j, commission=i['c'][j])
            if pos is None:
                pos = Position.open_from_transaction(t)
            else:
                pos.transact(t)
            snaps.append(snap(pos))
            if pos.net_quantity == 0:
                return dict(closed=True, snaps=snaps, before_mark=None, after_mark=None)
        before = snap(pos)
        pos.update_current_price(i['m'], _ts(self.cfg['k']))
        return dict(closed=False, snaps=snaps, before_mark=before, after_mark=snap(pos))

    def oracle(self, L, i, out):
        if out.kind != 'ok':
            return [('no_exception_or_undefined_result', L.true)]
        R = L.num
        o = out.value
        obl = []
        S_pq = S_c = net = 0
        bpq = bc = bq = spq = sc = sq = 0
        for j, s in enumerate(o['snaps']):
            q, p, c = R(i['q'][j]), R(i['p'][j]), R(i['c'][j])
            isbuy = L.gt(q, 0)
            S_pq = S_pq + p * q
            S_c = S_c + c
            net = net + q
            bpq = bpq + L.ite(isbuy, p * q, 0)
            bc = bc + L.ite(isbuy, c, 0)
            bq = bq + L.ite(isbuy, q, 0)
            spq = spq + L.ite(isbuy, 0, -p * q)
            sc = sc + L.ite(isbuy, 0, c)
            sq = sq + L.ite(isbuy, 0, -q)
            pnl_identities(L, s, 'fill%d' % j, S_pq, S_c, net, (bpq, bc, bq), (spq, sc, sq), i['p'][j], obl)
        if not o['closed']:
            b, a = o['before_mark'], o['after_mark']
            pnl_identities(L, a, 'marked', S_pq, S_c, net, (bpq, bc, bq), (spq, sc, sq), i['m'], obl)
            obl.append(('mark:realised_unchanged', L.ne(a['realised'], b['realised'])))
            obl.append(('mark:quantities_unchanged', L.Or(L.ne(a['net'], b['net']), L.ne(a['bq'], b['bq']), L.ne(a['sq'], b['sq']))))
            obl.append(('mark:price_is_the_mark', L.ne(a['price'], i['m'])))
        return obl

    def twins(self, L, i, out):
        if out.kind != 'ok':
            return []
        o = out.value
        tw = [('realised_nonzero', L.ne(o['snaps'][-1]['realised'], 0))]
        if len(o['snaps']) >= 2:
            tw.append(('flipped', L.lt(L.num(o['snaps'][0]['net']) * L.num(o['snaps'][-1]['net']), 0)))
        return tw

    def describe(self, i, out):
        if out.kind == 'ok':
            return dict(snaps=out.value['snaps'], after_mark=out.value['after_mark'])
        return str(out.value)[:200]


class Step(Harness):
    prop = 'C03'
    obligation_timeout_ms = 60000

    def inputs(self, mk):
        return dict(bq=mk.int('bq'), sq=mk.int('sq'), ab=mk.real('avg_bought'), as_=mk.real('avg_sold'), bc=mk.real('bc'),
                    sc=mk.real('sc'), m=mk.real('price'), q=mk.int('q'), p=mk.real('p'), c=mk.real('c'))

    def assume(self, L, i):
        return [L.ge(i['bq'], 0), L.ge(i['sq'], 0), L.ne(i['bq'], i['sq']),
                L.And(L.Implies(L.gt(i['bq'], 0), L.gt(i['ab'], 0)), L.Implies(L.eq(i['bq'], 0), L.And(L.eq(i['ab'], 0), L.eq(i['bc'], 0)))),
                L.And(L.Implies(L.gt(i['sq'], 0), L.gt(i['as_'], 0)), L.Implies(L.eq(i['sq'], 0), L.And(L.eq(i['as_'], 0), L.eq(i['sc'], 0)))),
                L.ge(i['bc'], 0), L.ge(i['sc'], 0), L.gt(i['m'], 0), L.ne(i['q'], 0), L.gt(i['p'], 0), L.ge(i['c'], 0)]

    def friendly(self, L, i):
        return [L.le(i['bq'], 1000), L.le(i['sq'], 1000), L.le(i['ab'], 500), L.le(i['as_'], 500), L.le(i['bc'], 50), L.le(i['sc'], 50),
                L.And(L.ge(i['m'], 1), L.le(i['m'], 500)), L.And(L.ge(i['q'], -1000), L.le(i['q'], 1000)), L.And(L.ge(i['p'], 1), L.le(i['p'], 500)),
                L.le(i['c'], 50)]

    def run(self, i):
        from qstrader.broker.portfolio.position import Position
        from qstrader.broker.transaction.transaction import Transaction
        pos = Position('EQ:A', i['m'], _ts(0), i['bq'], i['sq'], i['ab'], i['as_'], i['bc'], i['sc'])
        before = snap(pos)
        pos.transact(Transaction('EQ:A', i['q'], _ts(1), i['p'], 'o', commission=i['c']))
        return dict(before=before, after=snap(pos))

    def oracle(self, L, i, out):
        if out.kind != 'ok':
            return [('no_exception_or_undefined_result', L.true)]
        R = L.num
        b, a = out.value['before'], out.value['after']
        q, p, c = R(i['q']), R(i['p']), R(i['c'])
        isbuy = L.gt(q, 0)
        obl = []
        # ledger invariant preserved: per-side consideration, commission and quantity grow by exactly this fill
        obl.append(('step:total_bought', L.ne(a['tb'], R(b['tb']) + L.ite(isbuy, p * q, 0))))
        obl.append(('step:total_sold', L.ne(a['tsold'], R(b['tsold']) + L.ite(isbuy, 0, -p * q))))
        obl.append(('step:buy_commission', L.ne(a['bc'], R(b['bc']) + L.ite(isbuy, c, 0))))
        obl.append(('step:sell_commission', L.ne(a['sc'], R(b['sc']) + L.ite(isbuy, 0, c))))
        obl.append(('step:buy_quantity', L.ne(a['bq'], R(b['bq']) + L.ite(isbuy, q, 0))))
        obl.append(('step:sell_quantity', L.ne(a['sq'], R(b['sq']) + L.ite(isbuy, 0, -q))))
        # the pre-state is consistent with the constructor arguments (ghost = fields)
        obl.append(('pre:ledger_matches_fields', L.Or(L.ne(b['tb'], R(i['ab']) * R(i['bq'])), L.ne(b['tsold'], R(i['as_']) * R(i['sq'])),
                                                     L.ne(b['bc'], i['bc']), L.ne(b['sc'], i['sc']), L.ne(b['bq'], i['bq']), L.ne(b['sq'], i['sq']))))
        # identities on the post-state expressed through the (now proven) ledger
        for tag, s, price in (('pre', b, i['m']), ('post', a, i['p'])):
            net = R(s['bq']) - R(s['sq'])
            S_pq = R(s['tb']) - R(s['tsold'])
            S_c = R(s['bc']) + R(s['sc'])
            pnl_identities(L, s, tag, S_pq, S_c, net, (R(s['tb']), R(s['bc']), R(s['bq'])), (R(s['tsold']), R(s['sc']), R(s['sq'])), price, obl)
        return obl

    def twins(self, L, i, out):
        if out.kind != 'ok':
            return []
        a, b = out.value['after'], out.value['before']
        return [('closes', L.eq(a['net'], 0)), ('flips', L.lt(L.num(a['net']) * L.num(b['net']), 0))]

    def describe(self, i, out):
        return out.value if out.kind == 'ok' else str(out.value)[:200]
