"""Independent reference model of the documented trading rules (C08), written from the property statement against
the oracle language L (so it yields z3 terms in symbolic mode and floats on replay).  It shares nothing with the
implementation except the integer-part functions floor_/round0_ (uninterpreted: equal arguments give equal integers).

Rules: at each scheduled instant (a close, or the start open for buy-and-hold) admitted by the burn-in, equity =
cash + sum holdings x latest price; long-only target_i = floor((1-buffer) * equity * w_i/sum(w) * (1-fee) / price_i);
long/short target_i = trunc(trunc(d_i)/price_i) with d_i = pre_i - fee*|pre_i|, pre_i = leverage*equity*w_i/sum|w|;
orders = target - holdings; they fill at the next market open (immediately when the instant is itself an open) at the
latest price (the open), commission = fee * |round(price*quantity)|; daily equity at each close at/after burn-in.
"""
from fractions import Fraction


def price_at(L, h, inp, a, k, which):
    """latest price of asset a at day k's open (which='o') or close ('c'): the last open/close row at or before it"""
    bars = [b for b in h.bars[a] if b < k or (b == k)]
    if not bars:
        return None
    b = bars[-1]
    if b == k:
        return L.num(inp['m'][h.vname(a, which, k)])
    return L.num(inp['m'][h.vname(a, 'c', b)])


def size(L, h, equity, prices):
    cfg = h.cfg
    f = Fraction(cfg['fee'][0]) + Fraction(cfg['fee'][1]) if cfg['fee'] else 0
    # the configuration constants are doubles: arithmetic among them is double arithmetic in any implementation
    # (1.0 - buffer, w / sum(w), leverage / sum|w| are evaluated in floats, then taken as exact rationals)
    w = {a: float(cfg['weights'].get(a, 0.0)) for a in h.A}
    tgt = {}
    if cfg['long_only']:
        tot = sum(w.values())
        keep = Fraction(1.0 - cfg['buffer'])
        for a in h.A:
            share = equity * keep * Fraction(w[a] / tot if tot else 0.0)
            tgt[a] = L.floor((share - f * share) / prices[a])
    else:
        g = sum(abs(x) for x in w.values())
        ratio = (cfg['leverage'] / g) if g else 0.0
        for a in h.A:
            pre = equity * Fraction(w[a] * ratio)
            d = pre - f * L.abs(pre)
            tgt[a] = L.trunc(L.trunc(d) / prices[a])
    return tgt


def reference_backtest(L, h, inp):
    cfg = h.cfg
    opens, closes, reb, at, burn = h.calendar()
    f = (Fraction(cfg['fee'][0]) + Fraction(cfg['fee'][1])) if cfg['fee'] else 0
    cash = L.num(inp['cash']) if 'cash' in inp else L.num(Fraction(cfg['cash']))
    hold = {a: 0 for a in h.A}
    pending = None
    fills, equity = [], []
    sizing_equity = []

    def do_fill(k, orders):
        nonlocal cash
        rec = {}
        for a in h.A:
            q = orders[a]
            p = price_at(L, h, inp, a, k, 'o')
            c = f * L.abs(L.round0(p * q)) if cfg['fee'] else 0
            cash = cash - (p * q + c)
            hold[a] = hold[a] + q
            rec[a] = (q, p, c)
        fills.append((opens[k], rec))

    def rebalance(k, which):
        prices = {a: price_at(L, h, inp, a, k, which) for a in h.A}
        eq = cash
        for a in h.A:
            eq = eq + hold[a] * prices[a]
        sizing_equity.append(eq)
        tgt = size(L, h, eq, prices)
        return {a: tgt[a] - hold[a] for a in h.A}
    for k in range(len(h.days)):
        # 14:30 market open
        if pending is not None:
            do_fill(k, pending)
            pending = None
        if at != 'close' and k in reb and (burn is None or opens[k] >= burn):
            do_fill(k, rebalance(k, 'o'))
        # 21:00 market close
        if at == 'close' and k in reb and (burn is None or closes[k] >= burn):
            pending = rebalance(k, 'c')
        if burn is None or closes[k] >= burn:
            v = cash
            for a in h.A:
                v = v + hold[a] * price_at(L, h, inp, a, k, 'c')
            equity.append((closes[k], v))
    return dict(fills=fills, cash=cash, holdings=hold, equity=equity, sizing_equity=sizing_equity)
