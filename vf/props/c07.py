"""C07 - backtest results up to any date do not depend on later market data.

Whole real sessions on a symbolic market (vf/props/session.py).  For every path, every cut day T: no output dated
<= T and no branch decision taken while processing events dated <= T may depend on a bar dated > T; where a term does
mention a later bar z3 is asked for two markets that agree up to T, follow the path prefix and differ in the output
(the pair is replayed through two real float backtests before anything is reported).  "Removed altogether": the same
session is run on frames truncated after T, symbolically on the same path, and outputs <= T are compared.  Every
data-handler query must carry the current event time.  The lookup itself is decided for arbitrary instants by C06(a).
"""
from vf.props import session

EXPLANATION = ('All paths of the real session for all markets within the bound; per path and cut day T z3 decides that no output or '
               'decision up to T can be changed by rewriting later bars (two-market obligation with the alternative future as extra '
               'variables) and that outputs up to T are unchanged on frames truncated after T; counterexamples are a pair of markets '
               'replayed through two real float backtests and compared bit for bit.')
ASSUMPTIONS = [
    'exact real arithmetic ("bit for bit" in IEEE arithmetic is only checked on replayed counterexamples)',
    'market: Open/Close of every bar symbolic in (1,1000); calendar, weights, buffer/leverage, fee rates and initial cash concrete per configuration',
    'data source built from asset_bar_frames onward (CSV text parsing outside); Adj Close adjustment off',
    'truncated-frame comparison for the cut days listed per configuration (the middle day; thorough: days 1, 3, 5 for the two basic one-asset configurations); the two-market obligation covers every cut day',
]
DEADLINE = {'quick': 1500, 'thorough': 3400}


def configs(tier):
    out = session.configs_for('C07', tier)
    if tier == 'thorough':
        for c in out:
            if c['name'] in ('s1_weekly', 's1_weekly_holiday'):
                c['cuts'] = [1, 3, 5]         # three truncation days (every further one multiplies the path tree)
    return out


make = session.make
