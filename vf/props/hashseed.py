"""C18, "fresh interpreter with a different string-hash seed": the same session is explored symbolically in separate
interpreters started with different PYTHONHASHSEED values; every path is exported as SMT-LIB text (inputs, path condition,
one fresh constant per output term).  The parent joins a path of interpreter A with a path of interpreter B and asks z3 for
a market on which both path conditions hold and some output differs (or the number of outputs differs).  A model is replayed
as two real float backtests in two fresh interpreters with those seeds and compared bit for bit before anything is reported.

What this can see: iteration order of ANY set (literal, comprehension, constructor) anywhere in the code, through its effect
on control flow, on the order of emitted orders/rows, and on double arithmetic among configuration constants (a sum of three
concrete weights taken in set order is a different double in the two interpreters, hence a different constant in the terms).
What it cannot see: rounding differences of sums of SYMBOLIC operands (exact real arithmetic makes them equal).
"""
import json, os, subprocess, sys, time, hashlib, re

NSEEDS = {'quick': 3, 'thorough': 6}


def pick_seeds(names, n):
    """hash seeds under which a set of these asset names iterates in pairwise different orders (probed in fresh interpreters)"""
    seen, seeds = set(), []
    code = 'import sys; print("|".join(list(set(%r))))' % (sorted(names),)
    for sd in range(1, 80):
        r = subprocess.run([sys.executable, '-c', code], env=dict(os.environ, PYTHONHASHSEED=str(sd)), capture_output=True, text=True)
        order = r.stdout.strip()
        if order and order not in seen:
            seen.add(order)
            seeds.append(sd)
        if len(seeds) >= n:
            break
    return seeds


def worker_main():
    """child: explore every path of one configuration under this interpreter's hash seed; print JSON"""
    cfg = json.loads(sys.argv[2])
    mode = sys.argv[1]
    repo = os.environ.get('VERIF_REPO', '/repo')
    sys.path.insert(0, repo)
    import warnings
    warnings.simplefilter('ignore')
    from vf.props import session
    h = session.make(cfg)
    if mode == 'concrete':
        from vf.engine import shims
        from vf.engine.logic import ConcreteMaker
        shims.quiet()
        vals = json.loads(sys.argv[3])
        inp = h.inputs(ConcreteMaker(vals))
        run = h.backtest(h.market(inp))
        items = [(lab, (v.hex() if isinstance(v, float) else repr(v))) for lab, v in h.items_upto(run, cfg['nd'])]
        items.append(('alloc_cols', repr(run['alloc_cols'])))
        print('RESULT ' + json.dumps(items))
        return
    import z3
    from vf.engine import driver, core
    pc = driver.PathChecker(h)
    stack = [[]]
    paths = []
    t0 = time.time()
    while stack and time.time() - t0 < float(os.environ.get('HS_BUDGET', '600')):
        prefix = stack.pop()
        kind, val, pending = pc.ex.run_path(prefix, lambda: h.backtest(h.market(pc.inp)))
        stack.extend(pending)
        if kind != 'ok':
            paths.append(dict(decisions=''.join('1' if b else '0' for b in pc.ex.trace), kind=kind, smt=None, labels=[]))
            continue
        items = h.items_upto(val, cfg['nd'])
        s = z3.Solver()
        s.add(*pc.base)
        s.add(*pc.ex.pc)
        labels = []
        k = 0
        for lab, v in items:
            if isinstance(v, core.Sym):
                s.add(z3.Real('OUT__%d' % k) == v.e)
                labels.append((lab, 'OUT__%d' % k))
                k += 1
            else:
                labels.append((lab, 'lit:' + repr(v)))
        labels.append(('alloc_cols', 'lit:' + repr(val['alloc_cols'])))
        paths.append(dict(decisions=''.join('1' if b else '0' for b in pc.ex.trace), kind='ok', smt=s.to_smt2(), labels=labels))
    print('RESULT ' + json.dumps(dict(paths=paths, exhaustive=not stack, decl={n: k for n, k in pc.mk.decl.items()})))


def _spawn(mode, cfg, seed, extra=None, timeout=900):
    env = dict(os.environ, PYTHONHASHSEED=str(seed), PYTHONDONTWRITEBYTECODE='1', PYTHONWARNINGS='ignore')
    cmd = [sys.executable, '-m', 'vf.props.hashseed', mode, json.dumps(cfg)] + ([json.dumps(extra)] if extra is not None else [])
    r = subprocess.run(cmd, env=env, capture_output=True, text=True, timeout=timeout, cwd=os.path.dirname(os.path.dirname(os.path.dirname(os.path.abspath(__file__)))))
    for line in r.stdout.splitlines():
        if line.startswith('RESULT '):
            return json.loads(line[7:])
    raise RuntimeError('hash-seed worker (seed %s) failed: %s' % (seed, (r.stderr or r.stdout)[-800:]))


def check(cfgs, tier):
    """returns (violations, problems, stats)"""
    import z3
    from vf.engine import core
    stats = dict(configurations=[], pair_queries=0, pairs_compatible=0, solver_s=0.0)
    violations, problems = [], []
    for cfg in cfgs:
        t0 = time.time()
        seeds = pick_seeds(cfg['assets'], NSEEDS[tier])
        try:
            res = {sd: _spawn('symbolic', cfg, sd) for sd in seeds}
        except Exception as e:
            problems.append('%s: %s' % (cfg['name'], e))
            continue
        if not all(r['exhaustive'] for r in res.values()):
            problems.append('%s: hash-seed exploration not exhaustive' % cfg['name'])
        base_seed = seeds[0]
        A = res[base_seed]
        info = dict(name=cfg['name'], seeds=seeds, paths={str(sd): len(res[sd]['paths']) for sd in seeds}, differing_texts=0)
        for sd in seeds[1:]:
            B = res[sd]
            for pa in A['paths']:
                for pb in B['paths']:
                    if pa['kind'] != 'ok' or pb['kind'] != 'ok':
                        if pa['kind'] != pb['kind'] and pa['decisions'] == pb['decisions']:
                            problems.append('%s: path %s ends %s under seed %s but %s under seed %s' % (cfg['name'], pa['decisions'], pa['kind'], base_seed, pb['kind'], sd))
                        continue
                    if pa['smt'] == pb['smt'] and pa['labels'] == pb['labels']:
                        continue            # textually identical paths: nothing to decide
                    info['differing_texts'] += 1
                    fa = z3.parse_smt2_string(pa['smt'].replace('OUT__', 'OUTA__'))
                    fb = z3.parse_smt2_string(pb['smt'].replace('OUT__', 'OUTB__'))
                    diffs = []
                    la, lb = pa['labels'], pb['labels']
                    if [x[0] for x in la] != [x[0] for x in lb]:
                        diffs.append(z3.BoolVal(True))
                    else:
                        for (lab, xa), (_, xb) in zip(la, lb):
                            if xa.startswith('lit:') or xb.startswith('lit:'):
                                if xa != xb:
                                    diffs.append(z3.BoolVal(True))
                            else:
                                diffs.append(z3.Real(xa.replace('OUT__', 'OUTA__')) != z3.Real(xb.replace('OUT__', 'OUTB__')))
                    if not diffs:
                        continue
                    stats['pair_queries'] += 1
                    ts = time.time()
                    r, _ = core.robust_check(list(fa) + list(fb) + [z3.Or(*diffs)], 60000)
                    stats['solver_s'] += time.time() - ts
                    if r == z3.unknown:
                        problems.append('%s: hash-seed pair query undecided (paths %s / %s)' % (cfg['name'], pa['decisions'], pb['decisions']))
                        continue
                    if r == z3.unsat:
                        continue
                    stats['pairs_compatible'] += 1
                    # model -> replay in two fresh interpreters
                    s = z3.Solver()
                    s.add(*fa)
                    s.add(*fb)
                    s.add(z3.Or(*diffs))
                    for name, kind in A['decl'].items():
                        if kind == 'real':
                            s.add(z3.Real(name) >= 5, z3.Real(name) <= 500)
                    if core.timed_check(s, 20000) != z3.sat:
                        s = z3.Solver()
                        s.add(*fa)
                        s.add(*fb)
                        s.add(z3.Or(*diffs))
                        if core.timed_check(s, 20000) != z3.sat:
                            problems.append('%s: no model for a satisfiable hash-seed difference' % cfg['name'])
                            continue
                    m = s.model()
                    vals = {}
                    for name, kind in A['decl'].items():
                        if kind != 'real':
                            vals[name] = False if kind == 'bool' else 0
                            continue
                        v = m.eval(z3.Real(name), model_completion=True)
                        vals[name] = float(v.as_fraction()) if z3.is_rational_value(v) else float(v.approx(20).as_fraction())
                    ra = _spawn('concrete', cfg, base_seed, vals)
                    rb = _spawn('concrete', cfg, sd, vals)
                    if ra != rb:
                        first = next((x for x, y in zip(ra, rb) if x != y), ('length', len(ra), len(rb)))
                        violations.append(dict(config=cfg, seeds=[base_seed, sd], values=vals, first_difference=first,
                                               obligation='hashseed:same_results_under_another_string_hash_seed'))
                        break
                    problems.append('%s: a hash-seed dependent difference of the symbolic results (seeds %s/%s) did not reproduce in floats' % (cfg['name'], base_seed, sd))
                else:
                    continue
                break
        info['seconds'] = round(time.time() - t0, 1)
        stats['configurations'].append(info)
    stats['solver_s'] = round(stats['solver_s'], 2)
    return violations, problems, stats


if __name__ == '__main__':
    worker_main()
