"""C19 - assets trade only while they belong to the universe.

Units: real DynamicUniverse / StaticUniverse.get_assets, SingleSignalAlphaModel, FixedWeightPortfolioOptimiser,
EqualWeightPortfolioOptimiser with symbolic instants, signal, scale and weights.  Composition: the PCM harness of
vf/props/pcm.py with a DynamicUniverse whose entry instants and the rebalance instant are symbolic.
"""
from fractions import Fraction
from vf.engine.driver import Harness
from vf.props import pcm

EXPLANATION = ('Membership, alpha model and optimisers run on symbolic instants (entry = t is a value of the symbolic clock) and '
               'symbolic weights; z3 proves the inclusive membership rule, key sets and values. Through the real PCM + broker an asset '
               'that is neither held nor a member at the rebalance instant gets no weight, no order, no position and no allocation column, '
               'and a member gets the signal as weight.')
ASSUMPTIONS = [
    'instants are integers of nanoseconds (SymTimestamp); entry may be absent (None) per asset',
    'exact real arithmetic for weights/scale; equal-weight sum checked in real arithmetic',
    'PCM composition: assumptions of C09\'s harness; builder and rebalance instants lie in exchange hours',
    'whole sessions: concrete entry dates (before the start, exactly on a rebalance instant, one minute after it, after the end, none), symbolic market in (1,1000), universe-driven alpha with signal 1.0, long-only 5% buffer',
]
DEADLINE = {'quick': 1500, 'thorough': 3400}
NAMES = ['EQ:A', 'EQ:B', 'EQ:C']


def configs(tier):
    n = 2 if tier == 'quick' else 3
    out = [dict(kind='units', name='universe_alpha_optimisers_N%d' % n, n=n, weight=10, chunk=40, chunk_s=30, entry_tz='UTC',
                bound='%d assets: symbolic entry instants (or none), two query instants in any order on the same universe and alpha-model objects, signal, scale, weights' % n,
                twins=['member', 'nonmember', 'entry_equals_query', 'queried_later_first'])]
    out.append(dict(kind='units', name='universe_alpha_optimisers_N1', n=1, weight=5, chunk=40, chunk_s=30, entry_tz='UTC',
                    bound='a single asset (single-asset universe and single-key weight dictionaries)', twins=['member', 'nonmember']))
    for z in ('America/New_York', 'Asia/Tokyo'):
        out.append(dict(kind='units', name='universe_entries_in_%s' % z.split('/')[1].lower(), n=2, weight=10, chunk=40, chunk_s=30, entry_tz=z,
                        bound='2 assets whose entry instants are timezone-aware in %s (the query instant is UTC): membership compares instants' % z,
                        twins=['member', 'nonmember', 'entry_equals_query']))
    out += pcm.configs_for('C19', tier)
    from vf.props import session
    out += session.configs_for('C19', tier)
    return out


def make(cfg):
    if cfg['kind'] == 'session':
        from vf.props import session
        return session.make(cfg)
    return Units(cfg) if cfg['kind'] == 'units' else pcm.make(cfg)


class Units(Harness):
    prop = 'C19'

    def inputs(self, mk):
        A = NAMES[:self.cfg['n']]
        return dict(A=A, t=mk.time('t'), t0=mk.time('t0'), entry={a: mk.time('entry_' + a[-1], tz=self.cfg.get('entry_tz', 'UTC')) for a in A},
                    listed={a: mk.flag('listed_' + a[-1]) for a in A},
                    signal=mk.real('signal'), scale=mk.real('scale'), w={a: mk.real('w_' + a[-1]) for a in A})

    def assume(self, L, i):
        return [L.ge(L.t(i['t']), 0), L.ge(L.t(i['t0']), 0)] + [L.ge(L.t(e), 0) for e in i['entry'].values()]

    def friendly(self, L, i):
        from vf.engine.symtime import DAY
        return [L.le(L.t(x), 30 * DAY) for x in [i['t'], i['t0']] + list(i['entry'].values())]

    def run(self, i):
        from qstrader.asset.universe.dynamic import DynamicUniverse
        from qstrader.asset.universe.static import StaticUniverse
        from qstrader.alpha_model.single_signal import SingleSignalAlphaModel
        from qstrader.portcon.optimiser.fixed_weight import FixedWeightPortfolioOptimiser
        from qstrader.portcon.optimiser.equal_weight import EqualWeightPortfolioOptimiser
        A = i['A']
        listed = {a: bool(i['listed'][a]) for a in A}
        uni = DynamicUniverse({a: (i['entry'][a] if listed[a] else None) for a in reversed(A)})     # mapping order != sorted order
        # the same universe / alpha-model objects first answer for another instant t0 (earlier OR later than t: a universe
        # shared by two sessions, or queried out of time order) - the answer at t must not depend on that
        am = SingleSignalAlphaModel(uni, signal=i['signal'])
        members0 = uni.get_assets(i['t0'])
        alpha0 = am(i['t0'])
        members = uni.get_assets(i['t'])
        alpha = am(i['t'])
        static = StaticUniverse(list(reversed(A))).get_assets(i['t'])
        static_alpha = SingleSignalAlphaModel(StaticUniverse(list(A)), signal=i['signal'])(i['t'])
        wd = dict(i['w'])
        fixed = FixedWeightPortfolioOptimiser()(i['t'], initial_weights=wd)
        equal = EqualWeightPortfolioOptimiser(scale=i['scale'])(i['t'], initial_weights=dict(i['w']))
        return dict(listed=listed, members0=list(members0), alpha0=dict(alpha0), members=list(members), alpha=dict(alpha), static=list(static), static_alpha=dict(static_alpha),
                    fixed=dict(fixed), fixed_is_input=(fixed == wd) if not core_sym(wd) else None, equal=dict(equal))

    def oracle(self, L, i, out):
        if out.kind != 'ok':
            return [('units_do_not_raise', L.true)]
        o = out.value
        A = i['A']
        obl = []
        order = list(reversed(A))
        for a in A:
            member = L.tle(i['entry'][a], i['t']) if o['listed'][a] else L.false
            obl.append(('membership_iff_entry_not_later_than_t[%s]' % a, L.Not(L.Iff(L.bool(a in o['members']), member))))
            obl.append(('alpha_weight_iff_member[%s]' % a, L.Not(L.Iff(L.bool(a in o['alpha']), member))))
            member0 = L.tle(i['entry'][a], i['t0']) if o['listed'][a] else L.false
            obl.append(('membership_at_earlier_query_of_same_object[%s]' % a, L.Not(L.Iff(L.bool(a in o['members0']), member0))))
            obl.append(('alpha_weight_iff_member_at_earlier_query[%s]' % a, L.Not(L.Iff(L.bool(a in o['alpha0']), member0))))
            if a in o['alpha']:
                obl.append(('alpha_weight_is_the_signal[%s]' % a, L.ne(o['alpha'][a], i['signal'])))
        # (the order of the members is not part of the statement for a dynamic universe: compared as sets)
        obl.append(('no_unknown_or_duplicate_members', L.bool(len(set(o['members'])) != len(o['members']) or any(a not in A for a in o['members']))))
        obl.append(('alpha_keys_are_the_members', L.bool(sorted(o['alpha'].keys()) != sorted(o['members']))))
        obl.append(('static_universe_yields_exactly_its_list', L.bool(o['static'] != order)))
        obl.append(('static_alpha_keys', L.bool(sorted(o['static_alpha'].keys()) != sorted(A))))
        obl.append(('fixed_weight_keys', L.bool(sorted(o['fixed'].keys()) != sorted(A))))
        obl.append(('equal_weight_keys', L.bool(sorted(o['equal'].keys()) != sorted(A))))
        n = len(A)
        tot = 0
        for a in A:
            if a in o['fixed']:
                obl.append(('fixed_weight_unchanged[%s]' % a, L.ne(o['fixed'][a], i['w'][a])))
            # 1/N is a double constant in any implementation (1/3 is not exact): equality up to 1e-12 relative
            tol = Fraction(1, 10 ** 12) * L.abs(i['scale'])
            if a in o['equal']:
                obl.append(('equal_weight_is_scale_over_N[%s]' % a, L.gt(L.abs(L.num(o['equal'][a]) * n - L.num(i['scale'])), tol)))
                tot = tot + L.num(o['equal'][a])
        obl.append(('equal_weights_sum_to_scale', L.gt(L.abs(tot - L.num(i['scale'])), Fraction(1, 10 ** 12) * L.abs(i['scale']))))
        return obl

    def twins(self, L, i, out):
        if out.kind != 'ok':
            return []
        o = out.value
        a = i['A'][0]
        return [('member', L.bool(a in o['members'])), ('nonmember', L.bool(a not in o['members'])),
                ('entry_equals_query', L.And(L.bool(a in o['members']), L.teq(i['entry'][a], i['t']))),
                ('queried_later_first', L.And(L.bool(a in o['members0']), L.bool(a not in o['members'])))]

    def observe(self, i, out):
        if out.kind != 'ok':
            return (out.kind, type(out.value).__name__)
        o = out.value
        return dict(members=o['members'], alpha=o['alpha'], static=o['static'], fixed=o['fixed'], equal=o['equal'])

    def describe(self, i, out):
        return self.observe(i, out)


def core_sym(d):
    from vf.engine.core import Sym
    return any(isinstance(v, Sym) for v in d.values())
