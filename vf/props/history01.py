"""C01 (and C15) guard on the induction argument: genuinely multi-step symbolic histories.  From a fresh broker with two portfolios,
K operations are executed whose KINDS are chosen by input booleans (account subscribe/withdraw, portfolio subscribe/withdraw,
order submission in A or B, clock update), with symbolic amounts, quantities, quotes and non-decreasing instants.  A refused
operation is recorded and the history continues.  After every operation the global ledger kept by the harness (from the arguments
it passed and the quotes its stub handed out) is compared with every balance, and the portfolios' event histories with the list
of accepted movements."""
from fractions import Fraction
from vf.engine.driver import Harness
from vf.props.brokerh import snapshot, _from_repo

KINDS = ['subscribe_account', 'withdraw_account', 'subscribe_portfolio', 'withdraw_portfolio', 'submit_A', 'update', 'submit_B', 'update']
ASSETS = ['EQ:A', 'EQ:B']
PIDS = ['p1', 'p2']


def configs(tier):
    if tier == 'quick':
        return []
    out = [dict(kind='history01', oracle='C01', name='history_2ops_any_kind', k=2, pattern=None, weight=3000, chunk=12, chunk_s=25, validate_every=8,
                bound='2 operations of symbolic kind (all 8 kinds each) on a broker with 2 portfolios, symbolic arguments, quotes and instants; refusals continue the history',
                twins=['a_refusal_happened'])]
    for n, pat in enumerate([['subscribe_portfolio', 'submit_A', 'update'], ['submit_B', 'update', 'withdraw_portfolio'], ['subscribe_portfolio', 'submit_A', 'submit_B', 'update'],
                             ['subscribe_account', 'subscribe_portfolio', 'withdraw_account']]):
        out.append(dict(kind='history01', oracle='C01', name='history_' + '_'.join(x.split('_')[0][:3] + x.split('_')[-1][:4] for x in pat), k=len(pat), pattern=pat,
                        weight=2000, chunk=12, chunk_s=25, validate_every=6,
                        bound='history %s on a broker with 2 portfolios (the portfolio of each step is symbolic), symbolic arguments, quotes and instants' % ' -> '.join(pat),
                        twins=(['a_fill_happened'] if 'update' in pat else [])))
    return out


def make(cfg):
    return History(cfg)


class History(Harness):
    prop = 'C01'
    obligation_timeout_ms = 45000
    feasibility_timeout_ms = 4000

    def inputs(self, mk):
        k = self.cfg['k']
        return dict(F0=mk.real('initial_funds'), cr=mk.real('commission_rate'), tr=mk.real('tax_rate'), t=[mk.time('t%d' % j) for j in range(k + 1)],
                    kind=[[mk.flag('op%d_k%d' % (j, b)) for b in range(3)] for j in range(k)], on2=[mk.flag('op%d_on_p2' % j) for j in range(k)],
                    amt=[mk.real('amount%d' % j) for j in range(k)], q=[mk.int('q%d' % j) for j in range(k)],
                    bid=[{a: mk.real('bid%d_%s' % (j, a[-1])) for a in ASSETS} for j in range(k)],
                    ask=[{a: mk.real('ask%d_%s' % (j, a[-1])) for a in ASSETS} for j in range(k)])

    def assume(self, L, i):
        from vf.engine.symtime import DAY
        cs = [L.ge(i['F0'], 0), L.ge(i['cr'], 0), L.le(i['cr'], 1), L.ge(i['tr'], 0), L.le(i['tr'], 1), L.ge(L.t(i['t'][0]), 0), L.le(L.t(i['t'][-1]), 40 * DAY)]
        cs += [L.tle(i['t'][j], i['t'][j + 1]) for j in range(len(i['t']) - 1)]
        cs += [L.And(L.ne(q, 0), L.gt(q, -10 ** 6), L.lt(q, 10 ** 6)) for q in i['q']]
        for j in range(self.cfg['k']):
            for a in ASSETS:
                cs += [L.gt(i['bid'][j][a], 0), L.gt(i['ask'][j][a], 0), L.ne(i['bid'][j][a], i['ask'][j][a]), L.lt(i['bid'][j][a], 10 ** 5), L.lt(i['ask'][j][a], 10 ** 5)]
        return cs

    def friendly(self, L, i):
        return [L.le(i['F0'], 10 ** 6)] + [L.And(L.ge(a, -10 ** 6), L.le(a, 10 ** 6)) for a in i['amt']] + [L.And(L.ge(q, -500), L.le(q, 500)) for q in i['q']]

    def run(self, i):
        from qstrader.broker.simulated_broker import SimulatedBroker
        from qstrader.exchange.simulated_exchange import SimulatedExchange
        from qstrader.broker.fee_model.percent_fee_model import PercentFeeModel
        from qstrader.execution.order import Order
        cur = {'j': 0}
        t = i['t']

        class DH:
            def get_asset_latest_bid_ask_price(s, dt, a):
                return (i['bid'][cur['j']][a], i['ask'][cur['j']][a])

            def get_asset_latest_mid_price(s, dt, a):
                return (i['bid'][cur['j']][a] + i['ask'][cur['j']][a]) / 2.0
        br = SimulatedBroker(t[0], SimulatedExchange(t[0]), DH(), initial_funds=i['F0'], fee_model=PercentFeeModel(i['cr'], i['tr']))
        fills = []
        for p in PIDS:
            br.create_portfolio(p)
            port = br.portfolios[p]
            orig = port.transact_asset

            def spy(txn, _orig=orig, _p=p):
                fills.append(dict(pid=_p, step=cur['j'], asset=txn.asset, quantity=txn.quantity, price=txn.price, commission=txn.commission))
                return _orig(txn)
            port.transact_asset = spy
        steps = []
        for j in range(self.cfg['k']):
            cur['j'] = j
            if self.cfg.get('pattern'):
                kind = self.cfg['pattern'][j]
            else:
                kb = [bool(x) for x in i['kind'][j]]
                kind = KINDS[4 * kb[0] + 2 * kb[1] + kb[2]]
            pid = 'p2' if bool(i['on2'][j]) else 'p1'
            raised = None
            try:
                if kind == 'subscribe_account':
                    br.subscribe_funds_to_account(i['amt'][j])
                elif kind == 'withdraw_account':
                    br.withdraw_funds_from_account(i['amt'][j])
                elif kind == 'subscribe_portfolio':
                    br.subscribe_funds_to_portfolio(pid, i['amt'][j])
                elif kind == 'withdraw_portfolio':
                    br.withdraw_funds_from_portfolio(pid, i['amt'][j])
                elif kind in ('submit_A', 'submit_B'):
                    br.submit_order(pid, Order(br.current_dt, 'EQ:' + kind[-1], i['q'][j], order_id='o%d' % j))
                else:
                    br.update(t[j + 1])
            except Exception as e:
                if not _from_repo(e):
                    raise
                raised = type(e).__name__
            steps.append(dict(kind=kind, pid=pid, raised=raised, snap=snapshot(br, PIDS), nfills=len(fills)))
        return dict(steps=steps, fills=fills)

    def oracle(self, L, i, out):
        from vf.engine.symtime import exchange_open_spec
        from vf.props.brokerh import _open_concrete
        if out.kind != 'ok':
            return [('history_runs', L.true)]
        R = L.num
        o = out.value
        obl = []
        master = R(i['F0'])
        cash = {p: 0 for p in PIDS}
        events = {p: [] for p in PIDS}          # expected history entries (type, debit, credit, balance)
        queue = {p: [] for p in PIDS}
        f = R(i['cr']) + R(i['tr'])
        seen_fills = 0
        for j, st in enumerate(o['steps']):
            kind, pid, raised = st['kind'], st['pid'], st['raised']
            amt = i['amt'][j]
            tag = 'op%d:%s' % (j, kind)
            snap = st['snap']
            new_fills = o['fills'][seen_fills:st['nfills']]
            seen_fills = st['nfills']
            if kind == 'subscribe_account':
                invalid = L.lt(amt, 0)
                if raised is None:
                    master = master + R(amt)
            elif kind == 'withdraw_account':
                invalid = L.Or(L.lt(amt, 0), L.gt(amt, master))
                if raised is None:
                    master = master - R(amt)
            elif kind == 'subscribe_portfolio':
                invalid = L.Or(L.lt(amt, 0), L.gt(amt, master))
                if raised is None:
                    master = master - R(amt)
                    cash[pid] = cash[pid] + R(amt)
                    events[pid].append(('subscription', 0, L.round2(amt), L.round2(cash[pid])))
            elif kind == 'withdraw_portfolio':
                invalid = L.Or(L.lt(amt, 0), L.gt(amt, cash[pid]))
                if raised is None:
                    master = master + R(amt)
                    cash[pid] = cash[pid] - R(amt)
                    events[pid].append(('withdrawal', L.round2(amt), 0, L.round2(cash[pid])))
            elif kind in ('submit_A', 'submit_B'):
                invalid = L.false
                if raised is None:
                    queue[pid].append(('EQ:' + kind[-1], i['q'][j]))
            else:
                invalid = L.false
                if raised is None:
                    tt = i['t'][j + 1]
                    is_open = exchange_open_spec(L.t(tt)) if L.symbolic else L.bool(_open_concrete(tt))
                    pending_total = sum(len(v) for v in queue.values())
                    filled = len(new_fills) == pending_total and pending_total > 0
                    if pending_total:
                        obl.append(('C01:%s:fills_iff_exchange_open' % tag, L.Or(L.And(is_open, L.bool(not filled)), L.And(L.Not(is_open), L.bool(len(new_fills) != 0)))))
                    for fl in new_fills:
                        p = fl['pid']
                        price = L.ite(L.gt(fl['quantity'], 0), i['ask'][j][fl['asset']], i['bid'][j][fl['asset']])
                        com = f * L.abs(L.round0(R(price) * R(fl['quantity'])))
                        cost = R(price) * R(fl['quantity']) + com
                        obl.append(('C01:%s:fill_price_and_commission' % tag, L.Or(L.ne(fl['price'], price), L.ne(fl['commission'], com))))
                        cash[p] = cash[p] - cost
                        isbuy = L.gt(fl['quantity'], 0)
                        events[p].append(('asset_transaction', L.ite(isbuy, L.round2(cost), 0), L.ite(isbuy, 0, -L.round2(cost)), L.round2(cash[p])))
                    if new_fills:
                        queue = {p: [] for p in PIDS}
            if raised is not None:
                obl.append(('C15:%s:refused_only_when_invalid' % tag, L.Not(invalid)))
                obl.append(('C15:%s:refusal_type' % tag, L.bool(raised not in ('ValueError', 'KeyError'))))
            else:
                obl.append(('C15:%s:invalid_request_accepted' % tag, invalid))
            # the global ledger after this operation
            obl.append(('C01:%s:master_cash' % tag, L.ne(snap['master'], master)))
            tot = master
            for p in PIDS:
                obl.append(('C01:%s:%s_cash_is_transfers_minus_fill_costs' % (tag, p), L.ne(snap['ports'][p]['cash'], cash[p])))
                tot = tot + cash[p]
                hist = snap['ports'][p]['history']
                obl.append(('C01:%s:%s_history_lists_exactly_the_movements' % (tag, p), L.bool(len(hist) != len(events[p]))))
                if len(hist) == len(events[p]):
                    for (d, ty, de, cr_, ba), (ety, ede, ecr, eba) in zip(hist, events[p]):
                        obl.append(('C01:%s:%s_history_event' % (tag, p), L.Or(L.bool(ty != ety), L.ne(de, ede), L.ne(cr_, ecr), L.ne(ba, eba))))
                obl.append(('C01:%s:%s_pending_orders' % (tag, p), L.bool(len(snap['ports'][p]['queue']) != len(queue[p]))))
        pref = self.cfg['oracle'] + ':'
        return [(n, x) for n, x in obl if n.startswith(pref) or self.cfg['oracle'] == 'C01']

    def twins(self, L, i, out):
        if out.kind != 'ok':
            return []
        o = out.value
        return [('a_fill_happened', L.bool(len(o['fills']) > 0)), ('a_refusal_happened', L.bool(any(s['raised'] for s in o['steps'])))]

    def observe(self, i, out):
        if out.kind != 'ok':
            return (out.kind, type(out.value).__name__)
        o = out.value
        return [dict(kind=s['kind'], pid=s['pid'], raised=s['raised'], master=s['snap']['master'],
                     ports={p: dict(cash=d['cash'], nq=len(d['queue']), history=[(h[1], h[2], h[3], h[4]) for h in d['history']]) for p, d in s['snap']['ports'].items()})
                for s in o['steps']]

    def describe(self, i, out):
        return self.observe(i, out) if out.kind == 'ok' else str(out.value)[:300]
