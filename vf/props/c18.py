"""C18 - identical inputs give identical results.

Whole real sessions (vf/props/session.py) are run again on the same path (i) with the data-source object that already
served the first session, its memo caches warm and extended by arbitrary earlier queries, (ii) with every `set` built
inside pcm.py / signal.py iterating in an arbitrary order chosen by input booleans (all orders are explored) and with
order ids that sort the other way round.  A different string-hash seed can influence this code base only through set
iteration order (dict order is insertion order).  z3 proves fills (without ids), equity curve, target allocations
(values and column order) are the same terms.
"""
from vf.props import session

EXPLANATION = __doc__
ASSUMPTIONS = [
    'a fresh interpreter with another PYTHONHASHSEED is represented by arbitrary iteration orders of the sets built in qstrader.portcon.pcm and qstrader.signals.signal (re-execution in a fresh interpreter is not solving and is outside)',
    'order ids: a deterministic stub for uuid4 producing ids that sort ascending in the first run and descending in the second',
    'market symbolic in (1,1000); calendar/weights/fees concrete; exact real arithmetic ("bit for bit" in IEEE arithmetic is checked only on replayed counterexamples)',
]
DEADLINE = {'quick': 1500, 'thorough': 3400}


def configs(tier):
    return session.configs_for('C18', tier)


make = session.make
