"""C18 - identical inputs give identical results.

Whole real sessions (vf/props/session.py) are run again on the same path (i) with the data-source object that already
served the first session, its memo caches warm and extended by arbitrary earlier queries, (ii) with every `set` built
inside pcm.py / signal.py iterating in an arbitrary order chosen by input booleans (all orders are explored) and with
order ids that sort the other way round.  A different string-hash seed can influence this code base only through set
iteration order (dict order is insertion order).  z3 proves fills (without ids), equity curve, target allocations
(values and column order) are the same terms.
"""
from vf.props import session

EXPLANATION = __doc__
ASSUMPTIONS = [
    'a fresh interpreter with another PYTHONHASHSEED is represented by arbitrary iteration orders of the sets built in qstrader.portcon.pcm and qstrader.signals.signal (re-execution in a fresh interpreter is not solving and is outside)',
    'order ids: a deterministic stub for uuid4 producing ids that sort ascending in the first run and descending in the second',
    'market symbolic in (1,1000); calendar/weights/fees concrete; exact real arithmetic ("bit for bit" in IEEE arithmetic is checked only on replayed counterexamples)',
]
DEADLINE = {'quick': 1500, 'thorough': 3400}


def configs(tier):
    return session.configs_for('C18', tier)


make = session.make


def hashseed_configs(tier):
    c = [session._base('hs_s3_ls', assets=['EQ:A', 'EQ:B', 'EQ:C'], long_only=False, leverage=1.0, weights={'EQ:A': 0.1, 'EQ:B': -0.2, 'EQ:C': 0.3},
                       weekday='TUE', nd=3, oracle='C18',
                       bound='3 assets long/short (0.1,-0.2,0.3), leverage 1, weekly TUE, 3 days; explored under different PYTHONHASHSEED values'),
         session._base('hs_s2_dynamic_signals', assets=['EQ:A', 'EQ:B'], universe='dynamic', entries={'EQ:A': '2020-01-07 00:00', 'EQ:B': '2020-01-07 00:00'},
                       alpha='sma_trend', nd=4, oracle='C18', bound='2 assets entering a dynamic universe together, SMA signals, trend alpha, 4 days')]
    if tier == 'thorough':
        c.append(session._base('hs_s3_lo', assets=['EQ:A', 'EQ:B', 'EQ:C'], weights={'EQ:A': 0.1, 'EQ:B': 0.2, 'EQ:C': 0.3}, weekday='TUE', nd=3, oracle='C18',
                               bound='3 assets long-only (0.1,0.2,0.3), weekly TUE, 3 days'))
    return c


def main(tier, seed, workers):
    import json, os, hashlib
    from vf.engine import driver
    from vf.props import hashseed
    v, problems, stats = hashseed.check(hashseed_configs(tier), tier)
    code = driver.run_property('C18', 'vf.props.c18', tier, seed=seed, workers=workers, extra_evidence=dict(hash_seed_interpreters=stats, hash_seed_problems=problems))
    out = os.environ.get('VERIF_OUT', driver.ROOT)
    for x in v:
        os.makedirs(os.path.join(out, 'replays', 'C18'), exist_ok=True)
        h = hashlib.sha256(json.dumps(x, sort_keys=True, default=str).encode()).hexdigest()[:12]
        p = os.path.join(out, 'replays', 'C18', 'hashseed_%s.json' % h)
        json.dump(dict(property='C18', kind='hashseed', **x), open(p, 'w'), indent=1, default=str)
        print('VIOLATION property=C18 replay=%s   (%s under seeds %s: first difference %s)' % (p, x['config']['name'], x['seeds'], x['first_difference']))
    if v:
        _patch_evidence(out, len(v))
        return 1
    if problems and code == 0:
        for pr in problems[:5]:
            print('INCONCLUSIVE: ' + pr)
        return 2
    return code


def _patch_evidence(out, n):
    import json, os
    p = os.path.join(out, 'evidence', 'C18.json')
    try:
        ev = json.load(open(p))
        ev['violations'] = ev.get('violations', 0) + n
        json.dump(ev, open(p, 'w'), indent=1)
    except Exception:
        pass
