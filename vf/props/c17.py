"""C17 - performance statistics match their definitions for every equity curve.

Real code (through real pandas object-dtype kernels): qstrader.statistics.performance (aggregate_returns, create_cagr,
create_sharpe_ratio, create_sortino_ratio, create_drawdowns), TearsheetStatistics.get_results,
JSONStatistics (_calculate_returns, _calculate_statistics, _create_full_statistics; quantile helpers stubbed out).
Symbolic: the equity values e_0..e_{n-1} > 0 and a scale k > 0.  Concrete: the business-day date index.
"""
import datetime
from fractions import Fraction
from vf.engine.driver import Harness

EXPLANATION = ('The real statistics pipeline runs on an object-dtype equity column holding z3 proxies; every ordering of the '
               'curve that changes a branch (running maximum, under-water flags, negative-return mask) is a separate path; '
               'per path z3 proves returns, cumulative returns, weekly/monthly/yearly aggregates, drawdowns, maximum '
               'drawdown, duration, CAGR, Sharpe and Sortino equal their definitions, that tearsheet and JSON agree and that '
               'the figures of the k-scaled curve satisfy the same k-free definitions.')
ASSUMPTIONS = [
    'exact real arithmetic; exp/log handled by the exact log-domain algebra of DESIGN.md 1.3 (log a + log b = log ab, exp log a = a)',
    'equity values > 0, scale > 0; date index concrete (business days from the start date named in each configuration)',
    'sqrt is an uninterpreted function with s>=0, s*s=x; x**c (non-integer c) an uninterpreted function pow_c',
    'np.zeros/np.log/np.exp/np.mean/np.std/np.isnan shims; quantile statistics, plotting and JSON serialisation are outside',
    'a division by a zero deviation yields an undefined value, allowed exactly when the defining deviation is zero',
]
DEADLINE = {'quick': 1500, 'thorough': 3400}
PERIODS = 252

STARTS = {
    'yearend': '2019-12-30',     # Mon: crosses month, year and the ISO week-1 boundary
    'monthend': '2020-01-30',    # Thu: crosses a month end and a weekend
    'midmonth': '2020-03-11',    # Wed: crosses one weekend only
    'isoweek1': '2019-12-27',    # Fri (ISO week 52); the next business days 30/31 Dec are ISO week 1 while still in December 2019:
                                 # the weekly group keys (year, month, week) are NOT in date order
}


def configs(tier):
    out = []
    if tier == 'quick':
        plan = [(2, 'yearend'), (3, 'yearend'), (4, 'yearend'), (4, 'monthend'), (3, 'midmonth'), (3, 'isoweek1')]
        scaled = [(3, 'yearend')]
    else:
        plan = [(n, s) for n in (2, 3, 4) for s in STARTS] + [(5, 'yearend'), (5, 'midmonth')]
        scaled = [(3, 'yearend'), (4, 'monthend'), (4, 'yearend')]
    for n, s in plan:
        out.append(dict(name='curve_n%d_%s' % (n, s), n=n, start=STARTS[s], scaled=False, weight=4 ** n, chunk=10, chunk_s=40,
                        bound='%d symbolic equity points on business days from %s' % (n, STARTS[s]),
                        twins=['drawdown_positive'] + (['first_point_is_peak'] if n >= 3 else [])))
    for n, s in scaled:
        out.append(dict(name='scaled_n%d_%s' % (n, s), n=n, start=STARTS[s], scaled=True, weight=4 ** n + 1, chunk=10, chunk_s=40,
                        bound='%d symbolic equity points times a symbolic scale k>0, from %s' % (n, STARTS[s]),
                        twins=['drawdown_positive']))
    return out


def make(cfg):
    return Stats(cfg)


def bdays(start, n):
    d = datetime.date.fromisoformat(start)
    out = []
    while len(out) < n:
        if d.weekday() < 5:
            out.append(d)
        d += datetime.timedelta(days=1)
    return out


class Stats(Harness):
    prop = 'C17'
    symbolic_arrays = True
    chain_lemmas = True
    obligation_timeout_ms = 60000

    def __init__(self, cfg):
        super().__init__(cfg)
        self.dates = bdays(cfg['start'], cfg['n'])

    def inputs(self, mk):
        d = dict(e=[mk.real('e%d' % t) for t in range(self.cfg['n'])])
        if self.cfg['scaled']:
            d['k'] = mk.real('k')
        return d

    def assume(self, L, i):
        return [L.gt(e, 0) for e in i['e']] + ([L.gt(i['k'], 0)] if 'k' in i else [])

    def friendly(self, L, i):
        return [L.And(L.ge(e, 10), L.le(e, 1000)) for e in i['e']] + ([L.And(L.ge(i['k'], Fraction(1, 8)), L.le(i['k'], 8))] if 'k' in i else [])

    def run(self, i):
        import pandas as pd, numpy as np
        import qstrader.statistics.performance as perf
        import qstrader.statistics.json_statistics as js
        import qstrader.statistics.tearsheet as ts
        curve = [(e * i['k']) for e in i['e']] if 'k' in i else list(i['e'])
        symbolic = not isinstance(curve[0], float)

        def frame():
            col = pd.Series(curve, dtype=object).values if symbolic else np.array(curve, dtype=float)
            return pd.DataFrame({'Equity': col}, index=list(self.dates))
        # JSON reporter (quantile helpers are not the subject)
        J = js.JSONStatistics
        saved = (J._calculate_returns_quantiles, J._calculate_returns_quantiles_hc)
        J._calculate_returns_quantiles = lambda self_, r: {}
        J._calculate_returns_quantiles_hc = lambda self_, q: []
        try:
            alloc = pd.DataFrame({'EQ:A': [1.0] * len(curve)}, index=list(self.dates))
            j = J(frame(), alloc).statistics['strategy']
        finally:
            J._calculate_returns_quantiles, J._calculate_returns_quantiles_hc = saved
        t = ts.TearsheetStatistics(frame()).get_results(frame())
        # the performance functions on their own
        eq = frame()
        returns = eq['Equity'].pct_change().fillna(0.0)
        agg = {k: perf.aggregate_returns(returns, k) for k in ('weekly', 'monthly', 'yearly')}
        # the same library calls the ratio functions make, on the same series (identical terms by hash-consing)
        negs = returns[returns < 0]
        hmean, hstd = perf.np.mean(returns), perf.np.std(returns)
        hnegstd = perf.np.std(negs) if len(negs) else None
        hcum = perf.np.exp(perf.np.log(1 + returns).cumsum())
        out = dict(
            h=dict(mean=hmean, std=hstd, negstd=hnegstd, sharpe=perf.create_sharpe_ratio(returns), sortino=perf.create_sortino_ratio(returns),
                   cum_last=hcum.iloc[-1], cagr=perf.create_cagr(hcum)),
            json=dict(returns=[v for _, v in j['returns']], cum=[v for _, v in j['cum_returns']], dd=[v for _, v in j['drawdowns']],
                      max_dd=j['max_drawdown'], dur=j['max_drawdown_duration'], cagr=j['cagr'], sharpe=j['sharpe'], sortino=j['sortino'],
                      mean=j['mean_returns'], std=j['stdev_returns'], annvol=j['annualised_vol'],
                      monthly=[(tuple(k), v) for k, v in j['monthly_agg_returns']], yearly=[((k,) if not isinstance(k, tuple) else tuple(k), v) for k, v in j['yearly_agg_returns']]),
            tear=dict(returns=list(t['returns']), cum=list(t['cum_returns']), dd=list(t['drawdowns']), max_dd=t['max_drawdown'],
                      dur=t['max_drawdown_duration'], sharpe=t['sharpe']),
            agg={k: [((idx if isinstance(idx, tuple) else (idx,)), v) for idx, v in zip(a.index, a)] for k, a in agg.items()},
        )
        return out

    # ---- definitions (written from the statement, on the inputs only)
    def _spec(self, L, i):
        R = L.num
        e = [R(x) for x in i['e']]            # the UNSCALED curve: definitions are k-free
        n = len(e)
        r = [0] + [e[t] / e[t - 1] - 1 for t in range(1, n)]
        c = [e[t] / e[0] for t in range(n)]
        dd = []
        for t in range(n):
            hw = c[0]
            for s in range(1, t + 1):
                hw = L.ite(L.gt(c[s], hw), c[s], hw)
            dd.append(1 - c[t] / hw)
        mdd = dd[0]
        for t in range(1, n):
            mdd = L.ite(L.gt(dd[t], mdd), dd[t], mdd)
        run = 0
        dur = 0
        for t in range(n):
            run = L.ite(L.gt(dd[t], 0), run + 1, 0)
            dur = L.ite(L.gt(run, dur), run, dur)
        mean = sum(r[1:], r[0]) / n
        var = sum(((x - mean) * (x - mean) for x in r[1:]), (r[0] - mean) * (r[0] - mean)) / n
        neg = [L.lt(x, 0) for x in r]
        cnt = sum((L.ite(b, 1, 0) for b in neg[1:]), L.ite(neg[0], 1, 0))
        cs = L.ite(L.eq(cnt, 0), 1, cnt)
        nmean = sum((L.ite(b, x, 0) for b, x in zip(neg[1:], r[1:])), L.ite(neg[0], r[0], 0)) / cs
        nvar = sum((L.ite(b, (x - nmean) * (x - nmean), 0) for b, x in zip(neg[1:], r[1:])), L.ite(neg[0], (r[0] - nmean) * (r[0] - nmean), 0)) / cs
        return dict(r=r, c=c, dd=dd, mdd=mdd, dur=dur, mean=mean, var=var, cnt=cnt, nvar=nvar, n=n)

    def _groups(self, kind):
        keyf = {'weekly': lambda d: (d.year, d.month, d.isocalendar()[1]), 'monthly': lambda d: (d.year, d.month), 'yearly': lambda d: (d.year,)}[kind]
        g = {}
        for t, d in enumerate(self.dates):
            g.setdefault(keyf(d), []).append(t)
        return g

    def _ratio_def(self, L, tag, val, hmean, hdev, mean, var, defined, obl):
        """val must equal sqrt(periods) * mean / deviation.  Decomposed so that every step is either a rational identity
        or syntactic: (1) the library mean/deviation of the same series (hmean, hdev) equal their definitions
        (hdev >= 0, hdev^2 = var); (2) val == sqrt(periods)*hmean/hdev.  Undefined (x/0, empty selection) is allowed
        exactly when the defining deviation does not exist or is zero."""
        d = Fraction(float(PERIODS) ** 0.5) if L.symbolic else float(PERIODS) ** 0.5
        if L.is_undefined(val):
            obl.append(('%s:undefined_only_without_deviation' % tag, L.And(defined, L.ne(var, 0))))
            return
        obl.append(('%s:defined_requires_nonzero_deviation' % tag, L.Or(L.Not(defined), L.eq(var, 0))))
        if hdev is None or L.is_undefined(hdev):
            obl.append(('%s:deviation_exists' % tag, L.true))
            return
        obl.append(('%s:deviation_is_population_deviation' % tag, L.Or(L.ne(L.num(hdev) * L.num(hdev), var), L.lt(hdev, 0))))
        obl.append(('%s:mean_is_mean' % tag, L.ne(hmean, mean)))
        obl.append(('%s:is_sqrt_periods_times_mean_over_deviation' % tag, L.ne(val, d * L.num(hmean) / L.num(hdev))))

    def oracle(self, L, i, out):
        if out.kind != 'ok':
            return [('statistics_computable', L.true)]
        o = out.value
        S = self._spec(L, i)
        n = S['n']
        obl = []
        for src in ('json', 'tear'):
            d = o[src]
            for t in range(n):
                obl.append(('%s:return[%d]' % (src, t), L.ne(d['returns'][t], S['r'][t])))
                if t >= 1:
                    # one compounding step on the reported series (syntactic), so that cum[t] = e_t/e_0 follows from cum[t-1] and r_t
                    obl.append(('%s:cum_return_step[%d]' % (src, t), L.ne(d['cum'][t], L.num(d['cum'][t - 1]) * (1 + L.num(d['returns'][t])))))
                obl.append(('%s:cum_return[%d]' % (src, t), L.ne(d['cum'][t], S['c'][t])))
                obl.append(('%s:drawdown[%d]' % (src, t), L.ne(d['dd'][t], S['dd'][t])))
            # maximum drawdown / duration are the maximum and the longest under-water run "of that series": stated over the
            # reported drawdown series (each element proven equal to its definition just above), which keeps the queries free of
            # the nested running-maximum terms
            rep = [L.num(x) for x in d['dd']]
            obl.append(('%s:max_drawdown_is_an_element_of_the_series' % src, L.And(*[L.ne(d['max_dd'], x) for x in rep])))
            for t in range(n):
                obl.append(('%s:max_drawdown_dominates[%d]' % (src, t), L.lt(d['max_dd'], rep[t])))
            run = 0
            dur = 0
            for t in range(n):
                run = L.ite(L.gt(rep[t], 0), run + 1, 0)
                dur = L.ite(L.gt(run, dur), run, dur)
            obl.append(('%s:max_drawdown_duration' % src, L.ne(d['dur'], dur)))
            self._ratio_def(L, '%s:sharpe' % src, d['sharpe'], o['h']['mean'], o['h']['std'], S['mean'], S['var'], L.true, obl)
        j = o['json']
        h = o['h']
        self._ratio_def(L, 'perf:sharpe', h['sharpe'], h['mean'], h['std'], S['mean'], S['var'], L.true, obl)
        obl.append(('json:mean_return', L.ne(j['mean'], S['mean'])))
        obl.append(('json:stdev_squared_is_population_variance', L.Or(L.ne(L.num(j['std']) * L.num(j['std']), S['var']), L.lt(j['std'], 0))))
        # (the argument is the reported cumulative return, proven equal to e_last/e_0 by json:cum_return[n-1]; using the
        #  reported term keeps the uninterpreted power function's argument syntactically identical)
        obl.append(('json:cagr', L.ne(j['cagr'], L.pow(j['cum'][-1], float(PERIODS) / n) - 1)))
        obl.append(('perf:cagr', L.Or(L.ne(h['cum_last'], S['c'][-1]), L.ne(h['cagr'], L.pow(h['cum_last'], float(PERIODS) / n) - 1))))
        for tag, val in (('json:sortino', j['sortino']), ('perf:sortino', h['sortino'])):
            self._ratio_def(L, tag, val, h['mean'], h['negstd'], S['mean'], S['nvar'], L.gt(S['cnt'], 0), obl)
        # aggregates: labels are the calendar periods; each equals the compounded daily returns of its period; all compound to the total
        for kind, reported in list(o['agg'].items()) + [('monthly', j['monthly']), ('yearly', j['yearly'])]:
            G = self._groups(kind)
            labels = [tuple(int(x) for x in k) for k, _ in reported]
            if labels != sorted(G.keys()):
                # another labelling / grouping of the periods: the statement only requires that the figures compound to the
                # total return of the daily series
                total = 1
                for (k, v) in reported:
                    total = total * (1 + L.num(v))
                obl.append(('agg:%s:compounds_to_total_return' % kind, L.ne(total, S['c'][-1])))
                continue
            # each period's figure equals the compounded growth over its days, e_last(period)/e_last(previous period) - 1;
            # the periods partition the dates (checked above), so the figures telescope to the total return e_{n-1}/e_0
            e = [L.num(x) for x in i['e']]
            for (k, v), lab in zip(reported, labels):
                first, last = G[lab][0], G[lab][-1]
                base = e[first - 1] if first > 0 else e[0]
                obl.append(('agg:%s:%s_compounds_its_days' % (kind, '-'.join(map(str, lab))), L.ne(v, e[last] / base - 1)))
        return obl

    def twins(self, L, i, out):
        if out.kind != 'ok':
            return []
        o = out.value
        tw = [('drawdown_positive', L.gt(o['json']['max_dd'], 0))]
        if len(i['e']) >= 3:
            R = L.num
            tw.append(('first_point_is_peak', L.And(*[L.gt(R(i['e'][0]), R(x)) for x in i['e'][1:]])))
        return tw

    def observe(self, i, out):
        if out.kind != 'ok':
            return (out.kind, type(out.value).__name__)
        o = out.value
        return dict(json={k: v for k, v in o['json'].items()}, tear=o['tear'], agg=o['agg'], h=o['h'])

    def describe(self, i, out):
        if out.kind != 'ok':
            return str(out.value)[:300]
        j = out.value['json']
        return dict(returns=j['returns'], cum=j['cum'], drawdowns=j['dd'], max_dd=j['max_dd'], duration=j['dur'], sharpe=j['sharpe'],
                    sortino=j['sortino'], cagr=j['cagr'])
