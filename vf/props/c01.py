"""C01 - cash is conserved across master account, portfolios and fills.
(i) shared broker transition harness, one operation from a symbolic reachable state (vf/props/brokerh.py);
(ii) thorough: genuinely multi-step symbolic histories (vf/props/history01.py) as a guard on the induction argument."""
from vf.props import brokerh, history01

EXPLANATION = brokerh.__doc__ + '\n' + history01.__doc__
ASSUMPTIONS = [
    'exact real arithmetic; round(x,2)/round(x) are uninterpreted functions with |round(x)-x| <= half a unit (ties not modelled)',
    'structural bound: <= 2 portfolios, <= 2 assets, <= 2 builder fills per position, <= 2 (thorough 3) pending orders, one operation (two updates in thorough); thorough: 3-operation histories of symbolic kind',
    'quotes: fresh symbolic (bid, ask) per update and asset from a stub data handler that records the dt it is asked for; bid != ask, positive',
    'fill quantities are non-zero integers |q| < 1e6; fee rates in [0,1]; instants are integer nanoseconds within 40 days of a Monday epoch; the builder instant lies in exchange hours',
    'fills are observed at the broker/portfolio boundary (Transaction objects passed to Portfolio.transact_asset)',
]
DEADLINE = {'quick': 1500, 'thorough': 3400}


def configs(tier):
    return brokerh.configs_for('C01', tier) + history01.configs(tier)


def make(cfg):
    return history01.make(cfg) if cfg['kind'] == 'history01' else brokerh.make(cfg)
