"""Rebalance harness shared by C09 and C19: real PortfolioConstructionModel + optimiser + universe + alpha model +
order sizer (wrapped by a recording spy) + Order + ExecutionHandler + real SimulatedBroker/Portfolio.

Symbolic: per asset three booleans - held (with a symbolic signed integer quantity), in the universe, weighted by the
alpha model (symbolic weight) - so subset / superset / disjoint cases are one symbolic space; prices; cash.
C19 variant: the universe is a DynamicUniverse whose entry instants and the rebalance instant are symbolic, the alpha
model is the universe-driven SingleSignalAlphaModel.
"""
from fractions import Fraction
from vf.engine.driver import Harness
from vf.engine import core

PID = 'p'
NAMES = ['EQ:A', 'EQ:B', 'EQ:C']


def configs_for(prop, tier):
    out = []

    def cfg(name, **kw):
        d = dict(kind='pcm', oracle=prop, name=name, n=2, sizer='stub', universe='static', rounds=1, weight=100, chunk=6, chunk_s=20,
                 fee=[0.001, 0.0], wlist=None, validate_every=3)
        d.update(kw)
        return d
    if prop == 'C09':
        tw = ['liquidation', 'order_emitted', 'no_order_needed']
        out.append(cfg('pcm_N2_any_target', n=2, weight=500, twins=tw,
                       bound='assets A,B; held/in-universe/weighted booleans, holdings, weights, prices, cash symbolic; the order sizer is a stub returning arbitrary symbolic integer targets'))
        tw1 = ['liquidation', 'order_emitted']
        out.append(cfg('pcm_N1_long_only', n=1, sizer='long_only', twins=tw1, bound='1 asset, real long-only sizer (5% buffer), symbolic weight/holding/price/cash'))
        out.append(cfg('pcm_N1_long_short', n=1, sizer='long_short', twins=tw1, bound='1 asset, real long/short sizer (leverage 1.5), symbolic signed weight/holding/price/cash'))
        out.append(cfg('pcm_N1_two_rounds', n=1, sizer='long_only', rounds=2, twins=['order_emitted'],
                       bound='1 asset, two successive rebalances with a symbolic price move in between, real long-only sizer'))
        if tier == 'thorough':
            out.append(cfg('pcm_N3_any_target', n=3, weight=5000, twins=['order_emitted'], validate_every=10, fixed=dict(held={'EQ:B': False, 'EQ:C': False}, inuni={'EQ:A': True}),
                           bound='assets A,B,C; as pcm_N2_any_target with B and C not held and A in the universe (the fully symbolic 3-asset space exceeds 50 000 paths)'))
            out.append(cfg('pcm_N2_two_rounds_any_target', n=2, rounds=2, weight=3000, twins=['order_emitted'], validate_every=10,
                           fixed=dict(held={'EQ:B': False}, inuni={'EQ:A': True, 'EQ:B': True}),
                           bound='2 assets (A possibly held, B not held, both in the universe, weighted booleans symbolic), two successive rebalances with symbolic targets and price moves'))
            for k, wl in enumerate([[0.6, 0.4], [1.0, 0.0], [0.5, 0.5]]):
                out.append(cfg('pcm_N2_long_only_w%d' % k, n=2, sizer='long_only', wlist=wl, weight=2000, twins=['order_emitted'], validate_every=5,
                               bound='2 assets, real long-only sizer, concrete weights %s where weighted, holdings/prices/cash symbolic' % wl))
            out.append(cfg('pcm_N2_long_short_w', n=2, sizer='long_short', wlist=[0.5, -0.5], weight=2000, twins=['order_emitted'], validate_every=5,
                           bound='2 assets, real long/short sizer, concrete weights (0.5,-0.5) where weighted, holdings/prices/cash symbolic'))
    else:
        out.append(cfg('pcm_dynamic_N2_entries_in_newyork', n=2, universe='dynamic', weight=150, twins=['member_weighted', 'nonmember_untouched'], entry_tz='America/New_York',
                       bound='as pcm_dynamic_N2 with entry instants that are timezone-aware in America/New_York'))
        ns = [2] if tier == 'quick' else [2, 3]
        for n in ns:
            out.append(cfg('pcm_dynamic_N%d' % n, n=n, universe='dynamic', weight=10 ** n, twins=['member_weighted', 'nonmember_untouched'],
                           validate_every=3 if n == 2 else 10,
                           bound='assets %s in a DynamicUniverse with symbolic entry instants (or no entry date), symbolic rebalance instant, SingleSignalAlphaModel, holdings symbolic, stub sizer with symbolic targets' % NAMES[:n]))
    return out


def make(cfg):
    return Rebalance(cfg)


class SizerSpy:
    def __init__(self, inner, log):
        self.inner, self.log = inner, log

    def __call__(self, dt, weights):
        res = self.inner(dt, weights)
        self.log.append((dict(weights), {a: d['quantity'] for a, d in res.items()}))
        return res


class Rebalance(Harness):
    obligation_timeout_ms = 60000
    feasibility_timeout_ms = 4000

    def __init__(self, cfg):
        super().__init__(cfg)
        self.prop = cfg['oracle']
        self.A = NAMES[:cfg['n']]
        self.dynamic = cfg['universe'] == 'dynamic'

    def inputs(self, mk):
        A = self.A
        d = dict(cash=mk.real('cash'),
                 held={a: mk.flag('held_' + a[-1]) for a in A}, q={a: mk.int('q_' + a[-1]) for a in A},
                 p0={a: mk.real('p0_' + a[-1]) for a in A},
                 tgt=[{a: mk.int('tgt%d_%s' % (r, a[-1])) for a in A} for r in range(self.cfg['rounds'])],
                 p=[{a: mk.real('p%d_%s' % (r + 1, a[-1])) for a in A} for r in range(self.cfg['rounds'])])
        if self.dynamic:
            d.update(t0=mk.time('t0'), t=mk.time('t'), entry={a: mk.time('entry_' + a[-1], tz=self.cfg.get('entry_tz', 'UTC')) for a in A},
                     listed={a: mk.flag('listed_' + a[-1]) for a in A}, signal=mk.real('signal'))
        else:
            d.update(inuni={a: mk.flag('inuni_' + a[-1]) for a in A}, weighted={a: mk.flag('weighted_' + a[-1]) for a in A})
            if self.cfg['wlist']:
                d['w'] = {a: float(self.cfg['wlist'][k]) for k, a in enumerate(A)}
            else:
                d['w'] = {a: mk.real('w_' + a[-1]) for a in A}
        return d

    def assume(self, L, i):
        R = L.num
        A = self.A
        cs = [L.gt(i['cash'], 10 ** 7), L.lt(i['cash'], 10 ** 8)]
        cs += [L.And(L.ne(i['q'][a], 0), L.lt(i['q'][a], 1000), L.gt(i['q'][a], -1000)) for a in A]
        allp = [i['p0'][a] for a in A] + [pr[a] for pr in i['p'] for a in A]
        cs += [L.And(L.gt(x, 1), L.lt(x, 1000)) for x in allp]
        # equity stays positive whatever is held (the sizing rules presuppose it)
        cs += [L.And(L.lt(t[a], 1000), L.gt(t[a], -1000)) for t in i['tgt'] for a in A]
        if self.dynamic:
            from vf.engine.symtime import exchange_open_spec
            cs += [L.ge(L.t(i['t0']), 0), L.tle(i['t0'], i['t'])]
            if L.symbolic:      # both instants in exchange hours so that the builder fills and the rebalance orders execute
                cs += [exchange_open_spec(L.t(i['t0'])), exchange_open_spec(L.t(i['t']))]
            cs += [L.ge(L.t(e), 0) for e in i['entry'].values()]
            cs += [L.ge(i['signal'], 0)]
        else:
            if self.cfg['sizer'] == 'long_only':
                cs += [L.ge(w, 0) for w in i['w'].values()]
            cs += [L.And(L.ge(w, -10), L.le(w, 10)) for w in i['w'].values()]
        return cs

    def friendly(self, L, i):
        return [L.le(i['cash'], 2 * 10 ** 7)]

    def run(self, i):
        import pandas as pd
        from qstrader.broker.simulated_broker import SimulatedBroker
        from qstrader.exchange.simulated_exchange import SimulatedExchange
        from qstrader.broker.fee_model.percent_fee_model import PercentFeeModel
        from qstrader.asset.universe.static import StaticUniverse
        from qstrader.asset.universe.dynamic import DynamicUniverse
        from qstrader.alpha_model.fixed_signals import FixedSignalsAlphaModel
        from qstrader.alpha_model.single_signal import SingleSignalAlphaModel
        from qstrader.portcon.pcm import PortfolioConstructionModel
        from qstrader.portcon.optimiser.fixed_weight import FixedWeightPortfolioOptimiser
        from qstrader.portcon.order_sizer.dollar_weighted import DollarWeightedCashBufferedOrderSizer
        from qstrader.portcon.order_sizer.long_short import LongShortLeveragedOrderSizer
        from qstrader.execution.execution_handler import ExecutionHandler
        from qstrader.execution.execution_algo.market_order import MarketOrderExecutionAlgorithm
        from qstrader.execution.order import Order
        A = self.A
        cur = {'px': i['p0']}

        class DH:
            def get_asset_latest_bid_ask_price(s, dt, a):
                return (cur['px'][a], cur['px'][a])

            def get_asset_latest_ask_price(s, dt, a):
                return cur['px'][a]

            def get_asset_latest_bid_price(s, dt, a):
                return cur['px'][a]

            def get_asset_latest_mid_price(s, dt, a):
                return cur['px'][a]
        dh = DH()
        if self.dynamic:
            t0, t = i['t0'], i['t']
            times = [t]
        else:
            t0 = pd.Timestamp('2020-01-06 15:00', tz='UTC')
            times = [pd.Timestamp('2020-01-0%d 15:00' % (7 + r), tz='UTC') for r in range(self.cfg['rounds'])]
        br = SimulatedBroker(t0, SimulatedExchange(t0), dh, initial_funds=0.0, fee_model=PercentFeeModel(*self.cfg['fee']))
        br.subscribe_funds_to_account(i['cash'])
        br.create_portfolio(PID)
        br.subscribe_funds_to_portfolio(PID, i['cash'])
        fx = self.cfg.get('fixed') or {}
        held = {a: (fx.get('held', {}).get(a) if a in fx.get('held', {}) else bool(i['held'][a])) for a in A}
        for a in A:
            if held[a]:
                br.submit_order(PID, Order(t0, a, i['q'][a]))
        br.update(t0)
        if self.dynamic:
            listed = {a: bool(i['listed'][a]) for a in A}
            uni = DynamicUniverse({a: (i['entry'][a] if listed[a] else None) for a in A})
            alpha = SingleSignalAlphaModel(uni, signal=i['signal'])
            inuni = weighted = None
        else:
            listed = None
            inuni = {a: (fx.get('inuni', {}).get(a) if a in fx.get('inuni', {}) else bool(i['inuni'][a])) for a in A}
            weighted = {a: bool(i['weighted'][a]) for a in A}
            uni = StaticUniverse([a for a in A if inuni[a]])
            alpha = FixedSignalsAlphaModel({a: i['w'][a] for a in A if weighted[a]})
        rnd = {'r': 0}
        if self.cfg['sizer'] == 'long_only':
            sizer = DollarWeightedCashBufferedOrderSizer(br, PID, dh, cash_buffer_percentage=0.05)
        elif self.cfg['sizer'] == 'long_short':
            sizer = LongShortLeveragedOrderSizer(br, PID, dh, gross_leverage=1.5)
        else:
            def sizer(dt, weights):     # any order sizer: arbitrary integer target for every asset it is asked about
                # (zero weight -> zero quantity, as both shipped sizers guarantee: C10, C11)
                return {a: {'quantity': (0 if weights[a] == 0 else i['tgt'][rnd['r']][a])} for a in sorted(weights)}
        spy_log = []
        pcm = PortfolioConstructionModel(br, PID, uni, SizerSpy(sizer, spy_log), FixedWeightPortfolioOptimiser(data_handler=dh),
                                         alpha_model=alpha, data_handler=dh)
        eh = ExecutionHandler(br, PID, uni, submit_orders=True, execution_algo=MarketOrderExecutionAlgorithm(), data_handler=dh)
        rounds = []
        for r, tr in enumerate(times):
            cur['px'] = i['p'][r]
            rnd['r'] = r
            br.update(tr)
            before = {a: d['quantity'] for a, d in br.get_portfolio_as_dict(PID).items()}
            stats = {'target_allocations': []}
            n_spy = len(spy_log)
            orders = pcm(tr, stats=stats)
            olist = [(o.asset, o.quantity, o.created_dt) for o in orders]
            eh(tr, orders)
            after = {a: d['quantity'] for a, d in br.get_portfolio_as_dict(PID).items()}
            rounds.append(dict(before=before, orders=olist, after=after, stats=stats['target_allocations'], sizer=spy_log[n_spy:],
                               open_orders=br.open_orders[PID].qsize(), t=tr))
        return dict(held=held, inuni=inuni, weighted=weighted, listed=listed, rounds=rounds)

    def oracle(self, L, i, out):
        if out.kind != 'ok':
            return [('rebalance_does_not_raise', L.true)]
        o = out.value
        A = self.A
        obl = []
        prev_after = None
        for rn, rd in enumerate(o['rounds']):
            tag = 'r%d' % rn
            # what was held going in (ghost: builder fills for round 0, previous targets afterwards)
            if rn == 0:
                held_q = {a: (i['q'][a] if o['held'][a] else 0) for a in A}
                held_set = {a for a in A if o['held'][a]}
            else:
                held_q = dict(prev_target)
                held_set = None           # decided by symbolic quantities: compare through `before`
            for a in A:
                obl.append(('%s:holding_before[%s]' % (tag, a), L.ne(rd['before'].get(a, 0), held_q[a])))
            before_keys = set(rd['before'].keys())
            if self.dynamic:
                member = {a: (L.tle(i['entry'][a], rd['t']) if o['listed'][a] else L.false) for a in A}
                # the sizer saw exactly: held assets + members (decided on the path by the real comparisons)
                seen = set(rd['sizer'][0][0].keys()) if rd['sizer'] else set()
                for a in A:
                    is_held = a in before_keys
                    obl.append(('%s:asset_considered_iff_held_or_member[%s]' % (tag, a),
                                L.Not(L.Iff(L.bool(a in seen), L.Or(L.bool(is_held), member[a])))))
                    row = rd['stats'][0] if rd['stats'] else {}
                    obl.append(('%s:allocation_column_iff_held_or_member[%s]' % (tag, a), L.bool((a in row) != (a in seen))))
                    if a in row:
                        obl.append(('%s:member_weight_is_the_signal[%s]' % (tag, a), L.And(member[a], L.ne(row[a], i['signal']))))
                        obl.append(('%s:nonmember_weight_is_zero[%s]' % (tag, a), L.And(L.Not(member[a]), L.ne(row[a], 0))))
                    has_order = any(x[0] == a for x in rd['orders'])
                    obl.append(('%s:no_order_for_asset_neither_held_nor_member[%s]' % (tag, a),
                                L.And(L.Not(member[a]), L.bool(not is_held and (has_order or a in rd['after'])))))
                S = seen
            else:
                S = set(before_keys) | {a for a in A if o['inuni'][a]} | {a for a in A if o['weighted'][a]}
            if not rd['sizer'] and S:
                obl.append(('%s:sizer_called' % tag, L.true))
                continue
            target = rd['sizer'][0][1] if rd['sizer'] else {}
            tq = {a: target.get(a, 0) for a in A}
            # orders: exactly target - held for every asset of S, non-zero only, no duplicates, ascending
            names = [x[0] for x in rd['orders']]
            obl.append(('%s:no_duplicate_orders' % tag, L.bool(len(set(names)) != len(names))))
            obl.append(('%s:orders_ascending_by_asset' % tag, L.bool(names != sorted(names))))
            obl.append(('%s:orders_only_for_considered_assets' % tag, L.bool(any(n not in S for n in names))))
            for a in A:
                if a not in S:
                    continue
                od = [x for x in rd['orders'] if x[0] == a]
                diff = L.num(tq[a]) - L.num(rd['before'].get(a, 0))
                if od:
                    obl.append(('%s:order_is_target_minus_held[%s]' % (tag, a), L.ne(od[0][1], diff)))
                    obl.append(('%s:no_zero_quantity_order[%s]' % (tag, a), L.eq(od[0][1], 0)))
                else:
                    obl.append(('%s:order_emitted_when_target_differs[%s]' % (tag, a), L.ne(diff, 0)))
                # after the fills holdings equal the target (quantity 0 = absent)
                obl.append(('%s:holdings_reach_target[%s]' % (tag, a), L.ne(rd['after'].get(a, 0), tq[a])))
            obl.append(('%s:all_orders_filled' % tag, L.bool(rd['open_orders'] != 0)))
            if not self.dynamic:
                # recorded target allocation covers exactly S: alpha weight where given, zero elsewhere
                row = rd['stats'][0] if len(rd['stats']) == 1 else None
                obl.append(('%s:one_allocation_row' % tag, L.bool(row is None)))
                if row is not None:
                    obl.append(('%s:allocation_keys_are_date_plus_considered_assets' % tag, L.bool(set(row.keys()) != {'Date'} | S)))
                    for a in S:
                        if a in row:
                            want = i['w'][a] if o['weighted'][a] else 0
                            obl.append(('%s:allocation_weight[%s]' % (tag, a), L.ne(row[a], want)))
                # a held asset that receives no weight is fully liquidated
                for a in A:
                    if a in before_keys and not o['weighted'][a]:
                        obl.append(('%s:unweighted_holding_liquidated[%s]' % (tag, a), L.bool(a in rd['after'])))
            prev_target = tq
        return obl

    def twins(self, L, i, out):
        if out.kind != 'ok':
            return []
        o = out.value
        rd = o['rounds'][0]
        tw = [('order_emitted', L.bool(len(rd['orders']) > 0)), ('no_order_needed', L.bool(len(rd['orders']) == 0 and len(rd['before']) > 0))]
        if self.dynamic:
            seen = set(rd['sizer'][0][0].keys()) if rd['sizer'] else set()
            tw += [('member_weighted', L.bool(len(seen) > len(rd['before']))), ('nonmember_untouched', L.bool(len(seen) < len(self.A)))]
        else:
            tw += [('liquidation', L.bool(any(a in rd['before'] and not o['weighted'][a] and a not in rd['after'] for a in self.A)))]
        return tw

    def observe(self, i, out):
        if out.kind != 'ok':
            return (out.kind, type(out.value).__name__)
        return [dict(before=r['before'], orders=[(a, q) for a, q, _ in r['orders']], after=r['after'],
                     stats=[{k: v for k, v in row.items() if k != 'Date'} for row in r['stats']]) for r in out.value['rounds']]

    def describe(self, i, out):
        if out.kind != 'ok':
            return str(out.value)[:300]
        o = out.value
        return dict(held=o['held'], inuni=o['inuni'], weighted=o['weighted'], listed=o['listed'],
                    rounds=[dict(before=r['before'], orders=[(a, q) for a, q, _ in r['orders']], after=r['after'], sizer=r['sizer'],
                                 stats=[{k: v for k, v in row.items() if k != 'Date'} for row in r['stats']]) for r in o['rounds']])
