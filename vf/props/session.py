"""Whole real BacktestTradingSession.run() on a symbolic market (shared by C07, C08, C14, C16, C18, C19).

Real code: the entire session (__init__, run), SimulatedBroker, SimulatedExchange, QuantTradingSystem, PCM, sizers,
optimiser, execution handler, DailyBusinessDaySimulationEngine and the rebalance classes (concrete calendar),
BacktestDataHandler, CSVDailyBarDataSource from `asset_bar_frames` onward (real bar->bid/ask conversion, real get_bid
on a real DatetimeIndex through the lru_cache), universes, alpha models, signals.
Symbolic: Open and Close of every bar of every asset (two markets: a base market and an alternative one used for
the two-run causality obligations).  Concrete: calendar, weights, buffer/leverage, fee rates, initial cash.
"""
import datetime, itertools
from fractions import Fraction
import z3
from vf.engine.driver import Harness
from vf.engine import core

PID = '000001'
NPERM = 14
SMA_LB = 3           # lookback of the moving-average signal in the signal-driven configurations


# ------------------------------------------------------------------------------------------------
# configurations
def _base(name, **kw):
    d = dict(kind='session', name=name, assets=['EQ:A'], start='2020-01-06', start_tod='00:00', nd=8, missing={}, first_bar={},
             rebalance='weekly', weekday='WED', long_only=True, buffer=0.05, leverage=1.5, fee=[0.001, 0.0], weights={'EQ:A': 1.0},
             cash=1000000.0, burn_in=None, alpha='fixed', universe='static', entries=None, signal=None, cuts=None, chunk=8, chunk_s=40,
             weight=100, price_lo=1, price_hi=1000)
    d.update(kw)
    return d


def all_configs(tier):
    c = []
    c.append(_base('s1_weekly', bound='1 asset, 8 business days from Mon 2020-01-06, weekly WED, long-only 5% buffer, 0.1% fee'))
    c.append(_base('s1_weekly_holiday', missing={'EQ:A': [3]},
                   bound='as s1_weekly with the bar of day 3 (Thu) missing: event times no longer coincide with price rows'))
    c.append(_base('s2_weekly', assets=['EQ:A', 'EQ:B'], weights={'EQ:A': 0.6, 'EQ:B': 0.4}, weight=2000, chunk=4,
                   bound='2 assets (weights 0.6/0.4), 8 business days, weekly WED, long-only 5% buffer, 0.1% fee'))
    c.append(_base('s2_weekly5', assets=['EQ:A', 'EQ:B'], weights={'EQ:A': 0.6, 'EQ:B': 0.4}, nd=5, weight=1200, chunk=4,
                   bound='2 assets (weights 0.6/0.4), 5 business days (one rebalance on WED, filled on THU), long-only 5% buffer, 0.1% fee'))
    c.append(_base('s2_latestart', assets=['EQ:A', 'EQ:B'], weights={'EQ:A': 0.5, 'EQ:B': 0.5}, first_bar={'EQ:B': 4}, weight=1500, chunk=4,
                   bound='2 assets, the bars of B start on day 4 (after the first rebalance on day 2): the price of B is unavailable when first sized'))
    c.append(_base('s2_dynamic_signals', assets=['EQ:A', 'EQ:B'], universe='dynamic', entries={'EQ:A': '2020-01-07 00:00', 'EQ:B': '2020-01-07 00:00'},
                   alpha='sma_trend', nd=6, weight=1800, chunk=4,
                   bound='2 assets entering a dynamic universe together on day 1, SMA(3) signals collection, trend-following alpha (long above the average), weekly WED, 6 days'))
    c.append(_base('s3_entries', assets=['EQ:A', 'EQ:B', 'EQ:C'], universe='dynamic', alpha='single', nd=8, weight=2500, chunk=4,
                   entries={'EQ:A': '2020-01-01 00:00', 'EQ:B': '2020-01-08 21:00', 'EQ:C': '2020-01-08 21:01'},
                   bound='3 assets, dynamic universe: A enters before the start, B exactly on the first rebalance instant (Wed 21:00), C one minute after it; universe-driven alpha, weekly WED, 8 days'))
    c.append(_base('s2_entries_on_instant', assets=['EQ:A', 'EQ:B'], universe='dynamic', alpha='single', nd=6, weight=300,
                   entries={'EQ:A': '2020-01-01 00:00', 'EQ:B': '2020-01-08 21:00'},
                   bound='2 assets: A before the start, B enters exactly on the rebalance instant (Wed 21:00, inclusive); weekly WED, 6 days'))
    c.append(_base('s2_entries_minute_late', assets=['EQ:A', 'EQ:B'], universe='dynamic', alpha='single', nd=6, weight=300,
                   entries={'EQ:A': '2020-01-01 00:00', 'EQ:B': '2020-01-08 21:01'},
                   bound='2 assets: A before the start, B enters one minute after the rebalance instant; weekly WED, 6 days'))
    c.append(_base('s2_entries_never', assets=['EQ:A', 'EQ:B'], universe='dynamic', alpha='single', nd=6, weight=300,
                   entries={'EQ:A': '2020-01-07 14:30', 'EQ:B': None},
                   bound='2 assets: A enters on day 1, B has no entry date; universe-driven alpha, weekly WED, 6 days'))
    c.append(_base('s2_entries_after_end', assets=['EQ:A', 'EQ:B'], universe='dynamic', alpha='single', nd=6, weight=300,
                   entries={'EQ:A': '2020-01-06 00:00', 'EQ:B': '2020-02-01 00:00'},
                   bound='2 assets: A from the start, B enters after the end of the session; weekly WED, 6 days'))
    c.append(_base('s1_burnin', burn_in='2020-01-09 21:00', nd=9, weekday='THU',
                   bound='1 asset, 9 business days, weekly THU, burn-in exactly on the first rebalance instant'))
    c.append(_base('s1_bah', rebalance='buy_and_hold', start_tod='14:30', nd=5,
                   bound='1 asset, buy-and-hold from a 14:30 start, 5 business days'))
    c.append(_base('s1_weekly_mon', weekday='MON', nd=5, bound='1 asset, weekly MON with the session starting on a Monday (the start day is itself a rebalance day), 5 days'))
    c.append(_base('s1_ls', long_only=False, weights={'EQ:A': -1.0}, nd=6, bound='1 asset short, long/short leverage 1.5, weekly WED, 6 days'))
    c.append(_base('s1_two_rebalances', weekday='TUE', nd=8, bound='1 asset, weekly TUE: two rebalances (days 1 and 6) both of which fill, 8 days'))
    c.append(_base('s1_burnin_sameday', burn_in='2020-01-08 23:59', nd=9,
                   bound='1 asset, 9 days, weekly WED, burn-in on a rebalance DAY but after that day\'s 21:00 rebalance instant (a date-only cut would admit it)'))
    c.append(_base('s1_burnin_between', burn_in='2020-01-09 00:00', nd=9, bound='1 asset, 9 days, weekly WED, burn-in between two rebalances (the first rebalance must be skipped)'))
    if tier == 'thorough':
        c.append(_base('s3_dynamic_signals', assets=['EQ:A', 'EQ:B', 'EQ:C'], universe='dynamic',
                       entries={'EQ:A': '2020-01-01 00:00', 'EQ:B': '2020-01-07 00:00', 'EQ:C': '2020-01-07 00:00'}, alpha='sma_trend', nd=5, weight=4000, chunk=4,
                       bound='3 assets (A from the start, B and C entering together on day 1), SMA(3) signals, trend-following alpha, weekly WED, 5 days'))
        c.append(_base('s1_ls8', long_only=False, weights={'EQ:A': -1.0}, bound='1 asset short, long/short leverage 1.5, weekly WED, 8 days'))
        c.append(_base('s2_ls', assets=['EQ:A', 'EQ:B'], long_only=False, weights={'EQ:A': 0.5, 'EQ:B': -0.5}, weight=3000, chunk=4,
                       bound='2 assets long/short (0.5,-0.5), leverage 1.5, weekly WED, 8 days'))
        c.append(_base('s1_eom', rebalance='end_of_month', start='2020-01-29', nd=6, bound='1 asset, end-of-month across the January 2020 month end, 6 days'))
        c.append(_base('s1_daily', rebalance='daily', nd=3, bound='1 asset, daily rebalance, 3 business days (2 rebalances fill)'))
        c.append(_base('s1_weekly_fri', weekday='FRI', nd=7, bound='1 asset, weekly FRI (fills on the following Monday), 7 days'))
        c.append(_base('s2_weekly_holiday', assets=['EQ:A', 'EQ:B'], weights={'EQ:A': 0.5, 'EQ:B': 0.5}, missing={'EQ:B': [3]}, weight=2500, chunk=4,
                       bound='2 assets, bar of day 3 missing for B, weekly WED, 8 days'))
        c.append(_base('s1_zerofee_weekly_mon', weekday='MON', fee=None, nd=7, bound='1 asset, ZeroFeeModel, weekly MON, 7 days'))
    return c


PROP_CONFIGS = {
    'C07': dict(quick=['s1_weekly', 's1_weekly_holiday', 's2_weekly5', 's2_latestart', 's2_dynamic_signals'],
                thorough=['s1_weekly', 's1_weekly_holiday', 's2_weekly5', 's2_latestart', 's2_weekly', 's2_dynamic_signals', 's1_burnin', 's1_bah', 's1_ls', 's2_ls',
                          's1_eom', 's1_daily', 's1_weekly_fri', 's2_weekly_holiday', 's2_entries_on_instant']),
    'C08': dict(quick=['s1_weekly', 's1_bah', 's1_ls', 's1_two_rebalances', 's1_weekly_mon'], thorough=['s1_weekly', 's1_bah', 's2_weekly', 's1_ls', 's1_ls8', 's1_two_rebalances', 's1_weekly_mon', 's2_ls', 's1_eom', 's1_daily', 's1_weekly_fri', 's1_zerofee_weekly_mon']),
    'C18': dict(quick=['s2_weekly5', 's2_dynamic_signals'], thorough=['s2_weekly', 's2_dynamic_signals', 's1_weekly', 's2_ls', 's3_dynamic_signals']),
    'C16': dict(quick=['s2_dynamic_signals'], thorough=['s2_dynamic_signals', 's3_dynamic_signals']),
    'C19': dict(quick=['s2_entries_on_instant', 's2_entries_minute_late', 's2_entries_never', 's2_entries_after_end'],
                thorough=['s3_entries', 's2_entries_on_instant', 's2_entries_minute_late', 's2_entries_never', 's2_entries_after_end']),
    'C14': dict(quick=['s1_weekly', 's1_burnin', 's1_burnin_between', 's1_burnin_sameday', 's1_bah', 's1_weekly_mon'], thorough=['s1_weekly', 's1_burnin', 's1_bah', 's1_burnin_between', 's1_burnin_sameday', 's1_eom', 's1_daily', 's2_weekly', 's1_weekly_fri']),
}


def configs_for(prop, tier):
    allc = all_configs(tier)
    names = PROP_CONFIGS[prop][tier]
    out = []
    for c in allc:
        if names is None or c['name'] in names:
            c = dict(c, oracle=prop, name='%s' % c['name'])
            c['twins'] = [] if c['name'] in ('s2_latestart',) else {'C07': ['traded'], 'C08': ['traded'], 'C14': ['traded'], 'C18': ['traded'], 'C19': ['traded'], 'C16': ['traded']}.get(prop, [])
            out.append(c)
    return out


def make(cfg):
    return Session(cfg)


class TrendAlpha:
    """a user strategy in the style of examples/momentum_taa.py: long the assets trading above their moving average"""

    def __init__(self, signals, universe, data_handler, lookback):
        self.signals, self.universe, self.data_handler, self.lookback = signals, universe, data_handler, lookback

    def __call__(self, dt):
        members = self.universe.get_assets(dt)
        weights = {}
        for asset in self.signals['sma'].assets:
            if asset not in members:
                continue
            price = self.data_handler.get_asset_latest_mid_price(dt, asset)
            sma = self.signals['sma'](asset, self.lookback)
            weights[asset] = 1.0 if price > sma else 0.0
        return weights


# ------------------------------------------------------------------------------------------------
def bdays(start, n):
    d = datetime.date.fromisoformat(start)
    out = []
    while len(out) < n:
        if d.weekday() < 5:
            out.append(d)
        d += datetime.timedelta(days=1)
    return out


def ts(d, hh, mm):
    import pandas as pd
    return pd.Timestamp(datetime.datetime(d.year, d.month, d.day, hh, mm), tz='UTC')


class Session(Harness):
    chain_lemmas = True
    obligation_timeout_ms = 60000
    feasibility_timeout_ms = 5000

    def __init__(self, cfg):
        super().__init__(cfg)
        self.prop = cfg.get('oracle', 'C07')
        self.days = bdays(cfg['start'], cfg['nd'])
        self.A = list(cfg['assets'])
        # bars actually present per asset: day indexes
        self.bars = {}
        for a in self.A:
            first = cfg['first_bar'].get(a, 0)
            miss = set(cfg['missing'].get(a, []))
            self.bars[a] = [k for k in range(cfg['nd']) if k >= first and k not in miss]
        self.two_markets = self.prop in ('C07',)

    # ---- inputs: base market (and the alternative market for causality)
    def vname(self, a, oc, k, alt=False):
        return '%s%s_%s%d' % ('alt_' if alt else '', a[3:], oc, k)

    def inputs(self, mk):
        m = {}
        for alt in ([False, True] if self.two_markets else [False]):
            for a in self.A:
                for k in self.bars[a]:
                    for oc in 'oc':
                        n = self.vname(a, oc, k, alt)
                        m[n] = mk.real(n)
        d = dict(m=m)
        if self.prop == 'C08':
            # symbolic initial cash: with a concrete one the first sizing is pure double arithmetic inside the
            # implementation (rounded at every step), which exact real arithmetic cannot mirror
            d['cash'] = mk.real('initial_cash')
        if self.prop == 'C18':
            d['perm'] = [mk.flag('set_order_choice%d' % k) for k in range(NPERM)]
        return d

    def assume(self, L, i):
        lo, hi = self.cfg['price_lo'], self.cfg['price_hi']
        cs = [L.And(L.gt(v, lo), L.lt(v, hi)) for v in i['m'].values()]
        if 'cash' in i:
            cs += [L.ge(i['cash'], 10 ** 5), L.le(i['cash'], 10 ** 7)]
        return cs

    def friendly(self, L, i):
        return [L.And(L.ge(v, 5), L.le(v, 500)) for v in i['m'].values()]

    # ---- one real backtest on one market
    def market(self, i, cut=None):
        """name->value of the market used for a run: the base market, or (cut=T) base up to day T and alt afterwards"""
        def val(a, oc, k):
            if cut is not None and k > cut:
                return i['m'][self.vname(a, oc, k, True)]
            return i['m'][self.vname(a, oc, k)]
        return val

    def backtest(self, val, truncate_after=None, session_hook=None, reuse=None, warm=None, ids='a', keep_cache=False, only_source=False, cash=None):
        import pandas as pd, numpy as np, pytz
        from qstrader.data.daily_bar_csv import CSVDailyBarDataSource
        from qstrader.data.backtest_data_handler import BacktestDataHandler
        from qstrader.asset.universe.static import StaticUniverse
        from qstrader.asset.universe.dynamic import DynamicUniverse
        from qstrader.alpha_model.fixed_signals import FixedSignalsAlphaModel
        from qstrader.alpha_model.single_signal import SingleSignalAlphaModel
        from qstrader.trading.backtest import BacktestTradingSession
        from qstrader.broker.fee_model.percent_fee_model import PercentFeeModel
        from qstrader.broker.fee_model.zero_fee_model import ZeroFeeModel
        cfg = self.cfg
        frames = {}
        symbolic = None
        for a in self.A:
            ks = [k for k in self.bars[a] if truncate_after is None or k <= truncate_after]
            o = [val(a, 'o', k) for k in ks]
            c = [val(a, 'c', k) for k in ks]
            symbolic = bool(o) and not isinstance(o[0], float)
            idx = pd.DatetimeIndex([pd.Timestamp(self.days[k]) for k in ks], tz='UTC', name='Date')
            if symbolic:
                frames[a] = pd.DataFrame({'Open': pd.Series(o, dtype=object).values, 'Close': pd.Series(c, dtype=object).values}, index=idx)
            else:
                frames[a] = pd.DataFrame({'Open': np.array(o, dtype=float), 'Close': np.array(c, dtype=float)}, index=idx)
        if reuse is not None:
            ds = reuse['ds']          # a data-source object that already served an earlier session (memo caches warm)
        else:
            if not keep_cache:
                CSVDailyBarDataSource.get_bid.cache_clear()
                CSVDailyBarDataSource.get_ask.cache_clear()
            ds = object.__new__(CSVDailyBarDataSource)
            ds.csv_dir = None
            ds.asset_type = None
            ds.adjust_prices = False
            ds.csv_symbols = None
            ds.asset_bar_frames = frames
            ds.asset_bid_ask_frames = ds._convert_bars_into_bid_ask_dfs()
        if warm:
            for (t_, a_) in warm:     # arbitrary earlier queries against the shared, memoised source
                ds.get_bid(t_, a_)
                ds.get_ask(t_, a_)
        if only_source:
            return dict(ds=ds)
        import qstrader.execution.order as _ordmod
        counter = {'n': 0}

        class _U:
            def __init__(s, h):
                s.hex = h

        class _UUID:
            @staticmethod
            def uuid4():
                counter['n'] += 1
                return _U(('a%06d' % counter['n']) if ids == 'a' else ('z%06d' % (10 ** 6 - counter['n'])))
        _saved_uuid = _ordmod.uuid
        _ordmod.uuid = _UUID
        if cfg['universe'] == 'static':
            uni = StaticUniverse(list(self.A))
        else:
            uni = DynamicUniverse({a: (pd.Timestamp(e, tz='UTC') if e else None) for a, e in cfg['entries'].items()})
        dh = BacktestDataHandler(uni, data_sources=[ds])
        rec = dict(dh_calls=[], fills=[], cur=None, err=None)
        # observation: every data-handler query with the event time current when it was made
        for meth in ('get_asset_latest_bid_price', 'get_asset_latest_ask_price', 'get_asset_latest_bid_ask_price', 'get_asset_latest_mid_price'):
            orig = getattr(dh, meth)

            def spy(dt, a, _orig=orig, _m=meth):
                rec['dh_calls'].append((rec['cur'], dt, a, _m))
                return _orig(dt, a)
            setattr(dh, meth, spy)
        signals = None
        if cfg['alpha'] == 'fixed':
            alpha = FixedSignalsAlphaModel(dict(cfg['weights']))
        elif cfg['alpha'] == 'sma_trend':
            from qstrader.signals.sma import SMASignal
            from qstrader.signals.signals_collection import SignalsCollection
            start_ = pd.Timestamp('%s %s' % (cfg['start'], cfg['start_tod']), tz=pytz.UTC)
            signals = SignalsCollection({'sma': SMASignal(start_, uni, [SMA_LB])}, dh)
            alpha = TrendAlpha(signals, uni, dh, SMA_LB)
        else:
            alpha = SingleSignalAlphaModel(uni, signal=1.0)
        start = pd.Timestamp('%s %s' % (cfg['start'], cfg['start_tod']), tz=pytz.UTC)
        end = pd.Timestamp('%s 23:59' % self.days[-1].isoformat(), tz=pytz.UTC)
        kw = dict(rebalance=cfg['rebalance'], long_only=cfg['long_only'], data_handler=dh, initial_cash=(cfg['cash'] if cash is None else cash),
                  fee_model=PercentFeeModel(*cfg['fee']) if cfg['fee'] else ZeroFeeModel())
        if cfg['rebalance'] == 'weekly':
            kw['rebalance_weekday'] = cfg['weekday']
        if cfg['long_only']:
            kw['cash_buffer_percentage'] = cfg['buffer']
        else:
            kw['gross_leverage'] = cfg['leverage']
        if cfg['burn_in']:
            kw['burn_in_dt'] = pd.Timestamp(cfg['burn_in'], tz=pytz.UTC)
        if signals is not None:
            kw['signals'] = signals
        s = BacktestTradingSession(start, end, uni, alpha, **kw)
        port = s.broker.portfolios[PID]
        orig_tx = port.transact_asset

        def tx_spy(txn):
            rec['fills'].append(dict(dt=txn.dt, asset=txn.asset, quantity=txn.quantity, price=txn.price, commission=txn.commission))
            return orig_tx(txn)
        port.transact_asset = tx_spy
        orig_upd = s.broker.update

        def upd(dt):
            if rec['cur'] is None or dt != rec['cur']:
                rec['cur'] = dt
                if core.EX is not None:
                    core.EX.mark(('event', dt))
            return orig_upd(dt)
        s.broker.update = upd
        if session_hook:
            session_hook(s)
        try:
            s.run()
        except ValueError as e:
            e.from_repo = True
            rec['err'] = (rec['cur'], type(e).__name__)
        finally:
            _ordmod.uuid = _saved_uuid
        hist = [dict(dt=h.dt, type=h.type, asset=(h.description.split()[2] if h.type == 'asset_transaction' else None),
                     debit=h.debit, credit=h.credit, balance=h.balance) for h in port.history]
        return dict(equity=list(s.equity_curve), history=hist, fills=rec['fills'], alloc=list(s.target_allocations), cash=port.cash,
                    holdings={a: d['quantity'] for a, d in s.broker.get_portfolio_as_dict(PID).items()}, err=rec['err'],
                    dh_calls=rec['dh_calls'], schedule=list(s.rebalance_schedule), ds=ds,
                    signal_windows=({a: list(signals['sma'].buffers.prices.get('%s_%d' % (a, SMA_LB), ['absent'])) for a in self.A} if signals is not None else None),
                    signal_updates=(signals.warmup if signals is not None else None),
                    alloc_cols=[[k for k in a_.keys()] for a_ in s.target_allocations])

    def cuts(self):
        c = self.cfg.get('cuts')
        return list(c) if c is not None else [self.cfg['nd'] // 2 - 1]

    def run(self, i):
        base = self.backtest(self.market(i), cash=i.get('cash'))
        out = dict(base=base)
        if core.EX is not None:
            out['base_marks'] = list(core.EX.marks)
            out['base_pc_len'] = len(core.EX.pc)
        if self.prop == 'C18':
            out['variants'] = self.c18_variants(i, base)
        if self.two_markets:
            # later bars removed altogether: the same session on frames truncated after day T (also run symbolically)
            out['trunc'] = {T: self.backtest(self.market(i), truncate_after=T) for T in self.cuts()}
            if not isinstance(next(iter(i['m'].values())), core.Sym):
                # concrete replay: the alternative futures are really run
                out['alt'] = {T: self.backtest(self.market(i, cut=T)) for T in range(self.cfg['nd'] - 1)}
        return out

    # ---- C18: the same backtest again under every source of run-to-run variation the code base is exposed to
    def c18_variants(self, i, base):
        import pandas as pd
        import qstrader.portcon.pcm as pcm_mod
        import qstrader.signals.signal as sig_mod
        flags = list(i['perm'])
        state = {'k': 0}

        def choose(n):
            """an arbitrary index < n decided by the next input booleans"""
            idx = 0
            for j in range(n - 1):
                if state['k'] >= len(flags):
                    break
                b = bool(flags[state['k']])
                state['k'] += 1
                if b:
                    idx = j + 1
                else:
                    break
            return idx

        class NondetSet(set):
            """a set whose iteration order is arbitrary (what another string-hash seed can change)"""

            def __iter__(self):
                items = sorted(set.__iter__(self))
                out_ = []
                while items:
                    out_.append(items.pop(choose(len(items))))
                return iter(out_)

            def union(self, *o):
                return NondetSet(set.union(self, *o))

            def __sub__(self, o):
                return NondetSet(set.__sub__(self, o))

            def __or__(self, o):
                return NondetSet(set.__or__(self, o))
        v = {}
        # (1) same process, again, data source already warm from the first session and from arbitrary earlier queries
        warm = [(pd.Timestamp('%s 21:00' % d.isoformat(), tz='UTC'), a) for d in self.days[::2] for a in self.A] + \
               [(pd.Timestamp('%s 03:17' % self.days[1].isoformat(), tz='UTC'), self.A[0])]
        v['warm_cache'] = self.backtest(self.market(i), reuse=base, warm=warm)
        # (1b) a fresh source object while the class-wide memo still holds the answers another source object (other data:
        #      every price doubled) gave for the very same instants and assets
        every = [(t_, a) for d in self.days for t_ in (ts(d, 14, 30), ts(d, 21, 0)) for a in self.A]
        other = self.market(i)
        self.backtest(lambda a, oc, k: other(a, oc, k) * 2.0, warm=every, only_source=True)
        v['after_other_source'] = self.backtest(self.market(i), keep_cache=True)
        # (2) other order ids (sorting differently) and arbitrary set iteration orders
        saved = (pcm_mod.__dict__.get('set', None), sig_mod.__dict__.get('set', None))
        pcm_mod.set = NondetSet
        sig_mod.set = NondetSet
        try:
            v['set_order_and_ids'] = self.backtest(self.market(i), ids='z')
        finally:
            for m_, sv in ((pcm_mod, saved[0]), (sig_mod, saved[1])):
                if sv is None:
                    try:
                        delattr(m_, 'set')
                    except AttributeError:
                        pass
                else:
                    m_.set = sv
        return v

    def oracle_c18(self, L, i, o):
        base = o['base']
        obl = []
        T = self.cfg['nd']
        for name, w in o['variants'].items():
            a, b = self.items_upto(base, T), self.items_upto(w, T)
            same_shape = len(a) == len(b) and all(la == lb for (la, _), (lb, _) in zip(a, b))
            obl.append(('%s:same_fills_equity_allocations_and_errors' % name, L.bool(not same_shape)))
            if same_shape:
                diffs = []
                for (la, va), (lb, vb) in zip(a, b):
                    if isinstance(va, core.Sym) or isinstance(vb, core.Sym):
                        diffs.append((la, L.ne(va, vb)))
                    elif va != vb and not (va != va and vb != vb):
                        diffs.append((la, L.true))
                for la, f in diffs:
                    obl.append(('%s:%s' % (name, la.split('@')[0]), f))
            obl.append(('%s:allocation_columns_in_the_same_order' % name, L.bool(base['alloc_cols'] != w['alloc_cols'])))
        return obl

    def oracle_c16(self, L, i, o):
        """during a backtest every signal receives exactly one observation per asset per business day - that day's close -
        and an asset that enters the universe later starts with an empty window"""
        import pandas as pd
        run = o['base']
        obl = [('session_completes', L.bool(run['err'] is not None))]
        opens, closes, reb, at, burn = self.calendar()
        obl.append(('one_signal_update_per_business_day_close', L.bool(run['signal_updates'] != len(closes))))
        entry = {a: (pd.Timestamp(e, tz='UTC') if e else None) for a, e in (self.cfg['entries'] or {}).items()}
        for a in self.A:
            e = entry.get(a, closes[0]) if self.cfg['universe'] == 'dynamic' else closes[0]
            days = [k for k, c in enumerate(closes) if e is not None and e <= c]
            want = [L.num(i['m'][self.vname(a, 'c', k)]) for k in days][-SMA_LB:]
            got = run['signal_windows'][a]
            got = [] if got == ['absent'] else got
            obl.append(('%s:window_length' % a, L.bool(len(got) != len(want))))
            if len(got) == len(want):
                for n, (x, y) in enumerate(zip(got, want)):
                    obl.append(('%s:window[%d]_is_that_days_close' % (a, n), L.ne(x, y)))
        return obl

    def oracle_c19(self, L, i, o):
        """composition: nothing is weighted, ordered or held for an asset before its universe entry; it is included from the
        first rebalance at or after its entry"""
        import pandas as pd
        run = o['base']
        obl = [('session_completes', L.bool(run['err'] is not None))]
        opens, closes, reb, at, burn = self.calendar()
        entry = {a: (pd.Timestamp(e, tz='UTC') if e else None) for a, e in self.cfg['entries'].items()}
        inst = [(closes[k] if at == 'close' else opens[k]) for k in reb]
        rows = {r['Date']: r for r in run['alloc']}
        obl.append(('one_allocation_row_per_rebalance', L.bool(sorted(rows) != sorted(inst))))
        held = set()
        for t in inst:
            row = rows.get(t, {})
            for f in run['fills']:
                if f['dt'] <= t:
                    held.add(f['asset'])        # (a position once opened is only ever resized by these fixed positive weights)
            for a in self.A:
                member = entry[a] is not None and entry[a] <= t
                obl.append(('%s:%s:weighted_iff_member' % (t, a), L.bool((a in row and row[a] != 0.0) != member)))
                obl.append(('%s:%s:allocation_column_iff_member_or_held' % (t, a), L.bool((a in row) != (member or a in held))))
        for n, f in enumerate(run['fills']):
            a = f['asset']
            first = next((t for t in inst if entry[a] is not None and entry[a] <= t), None)
            obl.append(('fill[%d]:%s_not_traded_before_its_first_rebalance_as_a_member' % (n, a), L.bool(first is None or f['dt'] <= first)))
        for h in run['history']:
            if h['type'] == 'asset_transaction':
                a = h['asset']
                obl.append(('history:%s_event_not_before_entry' % a, L.bool(entry.get(a) is None or h['dt'] < entry[a])))
        for a in self.A:
            if entry[a] is None or entry[a] > inst[-1]:
                obl.append(('%s_never_held' % a, L.bool(a in run['holdings'])))
        return obl

    # ---- helpers for oracles
    def day_of(self, dt):
        d = dt.date()
        return self.days.index(d) if d in self.days else (-1 if d < self.days[0] else len(self.days))

    def items_upto(self, run, T):
        """(label, value) of every output dated on or before day T"""
        items = []
        for n, (dt, v) in enumerate(run['equity']):
            if self.day_of(dt) <= T:
                items.append(('equity[%d]@%s' % (n, dt.date()), v))
        for n, f in enumerate(run['fills']):
            if self.day_of(f['dt']) <= T:
                for k in ('quantity', 'price', 'commission'):
                    items.append(('fill[%d].%s@%s' % (n, k, f['dt'].date()), f[k]))
                items.append(('fill[%d].asset' % n, f['asset']))
        for n, h in enumerate(run['history']):
            if self.day_of(h['dt']) <= T:
                for k in ('debit', 'credit', 'balance'):
                    items.append(('history[%d].%s@%s' % (n, k, h['dt'].date()), h[k]))
                items.append(('history[%d].type' % n, h['type'] + ':' + str(h['asset'])))
        for n, a in enumerate(run['alloc']):
            if self.day_of(a['Date']) <= T:
                for k, v in a.items():
                    if k != 'Date':
                        items.append(('alloc[%d].%s' % (n, k), v))
        if run['err'] is not None and self.day_of(run['err'][0]) <= T:
            items.append(('error', '%s@%s' % (run['err'][1], run['err'][0])))
        return items

    def future_names(self, T):
        return {self.vname(a, oc, k) for a in self.A for k in self.bars[a] if k > T for oc in 'oc'}

    # ---- oracles
    def oracle(self, L, i, out):
        if out.kind != 'ok':
            return [('session_runs', L.true)]
        f = {'C07': self.oracle_c07, 'C14': self.oracle_c14, 'C08': self.oracle_c08, 'C18': self.oracle_c18, 'C19': self.oracle_c19, 'C16': self.oracle_c16}[self.prop]
        return f(L, i, out.value)

    def oracle_c07(self, L, i, o):
        base = o['base']
        obl = []
        # every price query carries the current event time
        bad = [c for c in base['dh_calls'] if c[0] is None or c[1] != c[0]]
        obl.append(('every_price_query_is_made_for_the_current_event_time', L.bool(len(bad) > 0)))
        nd = self.cfg['nd']
        if L.symbolic:
            ex = core.EX
            marks = o['base_marks']                # (('event', dt), position in pc)
            for T in range(nd - 1):
                fut = self.future_names(T)
                if not fut:
                    continue
                sub = [(z3.Real(n), z3.Real('alt_' + n)) for n in fut]
                # path-condition prefix taken while processing events dated <= T (base run only)
                end = o['base_pc_len']
                for (lab, pos) in marks:
                    if self.day_of(lab[1]) > T:
                        end = pos
                        break
                viol = []
                pre_alt = []
                for c, tag in zip(ex.pc[:end], ex.tags[:end]):
                    dep = core.var_names(c) & fut
                    c_alt = z3.substitute(c, *sub) if dep else c
                    if dep and tag is None:
                        # a decision up to T that reads a later bar: can the alternative future flip it?
                        viol.append(z3.And(*(pre_alt + [z3.Not(c_alt)])))
                    pre_alt.append(c_alt)
                for lab, v in self.items_upto(base, T):
                    if isinstance(v, core.Sym) and (core.var_names(v.e) & fut):
                        viol.append(z3.And(*(pre_alt + [z3.substitute(v.e, *sub) != v.e])))
                obl.append(('cut%d:outputs_up_to_day_independent_of_later_bars' % T, z3.Or(*viol) if viol else L.false))
        else:
            for T in range(nd - 1):
                if not self.future_names(T):
                    continue
                obl.append(('cut%d:outputs_up_to_day_independent_of_later_bars' % T, L.bool(self._differ(base, o['alt'][T], T))))
        for T, world in o['trunc'].items():
            if not self.future_names(T):
                continue
            a, b = self.items_upto(base, T), self.items_upto(world, T)
            if len(a) != len(b) or any(la != lb for (la, _), (lb, _) in zip(a, b)):
                obl.append(('cut%d:outputs_up_to_day_unchanged_when_later_bars_removed' % T, L.true))
                continue
            if L.symbolic:
                diffs = []
                for (la, va), (lb, vb) in zip(a, b):
                    if isinstance(va, core.Sym) or isinstance(vb, core.Sym):
                        diffs.append(L.ne(va, vb))
                    elif va != vb and not (va != va and vb != vb):
                        diffs.append(L.true)
                obl.append(('cut%d:outputs_up_to_day_unchanged_when_later_bars_removed' % T, L.Or(*diffs)))
            else:
                obl.append(('cut%d:outputs_up_to_day_unchanged_when_later_bars_removed' % T, L.bool(self._differ(base, world, T))))
        return obl

    def _differ(self, base, world, T):
        """bit-for-bit comparison of everything dated on or before day T (float replay)"""
        a, b = self.items_upto(base, T), self.items_upto(world, T)
        if len(a) != len(b):
            return True
        for (la, va), (lb, vb) in zip(a, b):
            if la != lb or (va != vb and not (va != va and vb != vb)):
                return True
        return False

    # calendar written independently with datetime
    def calendar(self):
        cfg = self.cfg
        days = self.days
        opens = [ts(d, 14, 30) for d in days]
        closes = [ts(d, 21, 0) for d in days]
        kind = cfg['rebalance']
        if kind == 'weekly':
            wd = ['MON', 'TUE', 'WED', 'THU', 'FRI'].index(cfg['weekday'])
            reb = [k for k, d in enumerate(days) if d.weekday() == wd]
            at = 'close'
        elif kind == 'daily':
            reb = list(range(len(days)))
            at = 'close'
        elif kind == 'end_of_month':
            reb = [k for k, d in enumerate(days) if (d + datetime.timedelta(days=(3 if d.weekday() == 4 else 1))).month != d.month]
            at = 'close'
        else:
            reb = [0]
            at = 'open' if cfg['start_tod'] == '14:30' else 'start'
        burn = None
        if cfg['burn_in']:
            import pandas as pd
            burn = pd.Timestamp(cfg['burn_in'], tz='UTC')
        return opens, closes, reb, at, burn

    def oracle_c14(self, L, i, o):
        run = o['base']
        opens, closes, reb, at, burn = self.calendar()
        obl = []
        inst = [(closes[k] if at == 'close' else opens[k]) for k in reb]
        admitted = [t for t in inst if burn is None or t >= burn]
        # construction ran exactly at the admitted scheduled instants (one allocation row each)
        got = [a['Date'] for a in run['alloc']]
        obl.append(('construction_runs_exactly_at_admitted_scheduled_instants', L.bool(got != admitted)))
        # fills only at market-open events, never before the first admitted instant
        for n, f in enumerate(run['fills']):
            bad = f['dt'] not in opens or not admitted or f['dt'] < admitted[0]
            obl.append(('fill[%d]_at_a_market_open_not_before_first_admitted_rebalance' % n, L.bool(bad)))
        # equity: exactly the business days whose close lies in [max(start, burn-in), end]
        exp_dates = [c for c in closes if burn is None or c >= burn]
        obl.append(('equity_curve_has_exactly_the_business_day_closes', L.bool([d for d, _ in run['equity']] != exp_dates)))
        # each value = cash + sum holdings x close of that day, with cash/holdings from the fills so far (ghost ledger)
        R = L.num
        cash = R(self.cfg['cash'])
        hold = {a: 0 for a in self.A}
        fills = list(run['fills'])
        fi = 0
        m = i['m']
        for (d, v) in run['equity']:
            while fi < len(fills) and fills[fi]['dt'] <= d:
                f = fills[fi]
                cash = cash - R(f['price']) * R(f['quantity']) - R(f['commission'])
                hold[f['asset']] = hold[f['asset']] + R(f['quantity'])
                fi += 1
            k = self.day_of(d)
            val = cash
            computable = True
            for a in self.A:
                kk = [b for b in self.bars[a] if b <= k]
                if not kk:
                    computable = False
                    break
                val = val + hold[a] * R(m[self.vname(a, 'c', kk[-1])])
            if computable:
                obl.append(('equity@%s_is_cash_plus_holdings_at_that_close' % d.date(), L.ne(v, val)))
        # allocation table: one row per equity date carrying forward the latest rebalance's weights
        if run['alloc'] and run['equity'] and run['err'] is None:
            obl.append(('allocation_table_one_row_per_equity_date_forward_filled', L.bool(not self._alloc_table_ok(run, exp_dates, admitted))))
        return obl

    def _alloc_table_ok(self, run, exp_dates, admitted):
        import pandas as pd
        from qstrader.trading.backtest import BacktestTradingSession
        s = object.__new__(BacktestTradingSession)
        s.equity_curve = [(d, 0.0) for d, _ in run['equity']]
        s.target_allocations = [dict(a) for a in run['alloc']]
        s.burn_in_dt = pd.Timestamp(self.cfg['burn_in'], tz='UTC') if self.cfg['burn_in'] else None
        try:
            df = s.get_target_allocations()
        except Exception:
            return False
        dates = [d.date() for d in exp_dates]
        if list(df.index) != dates:
            return False
        for d in dates:
            prior = [a for a in run['alloc'] if a['Date'].date() <= d]
            row = df.loc[d]
            if not prior:
                if not row.isna().all():
                    return False
                continue
            want = {k: v for k, v in prior[-1].items() if k != 'Date'}
            for k, v in want.items():
                if not (abs(float(row[k]) - float(v)) < 1e-12):
                    return False
        return True

    def oracle_c08(self, L, i, o):
        from vf.props.reference import reference_backtest
        run = o['base']
        obl = []
        if run['err'] is not None:
            return [('session_completes', L.true)]
        ref = reference_backtest(L, self, i)
        R = L.num
        # fills: same instants, per asset the reference quantity at the reference price with the reference commission, sells first
        by_time = {}
        for f in run['fills']:
            by_time.setdefault(f['dt'], []).append(f)
        ref_times = [t for t, _ in ref['fills']]
        obl.append(('fills_only_at_the_opens_following_scheduled_closes', L.bool(any(t not in ref_times for t in by_time))))
        for t, rf in ref['fills']:
            got = by_time.get(t, [])
            assets = [g['asset'] for g in got]
            obl.append(('%s:no_duplicate_fills' % t, L.bool(len(set(assets)) != len(assets))))
            side = [g['quantity'] for g in got]
            for x, y in zip(side, side[1:]):
                obl.append(('%s:sells_before_buys' % t, L.And(L.gt(x, 0), L.lt(y, 0))))
            for a in self.A:
                g = [x for x in got if x['asset'] == a]
                q_ref, p_ref, c_ref = rf[a]
                if g:
                    obl.append(('%s:%s:quantity' % (t, a), L.ne(g[0]['quantity'], q_ref)))
                    obl.append(('%s:%s:price_is_the_open' % (t, a), L.ne(g[0]['price'], p_ref)))
                    # commission per the rule on THIS fill's own price and quantity (each proven equal to the reference's by the two
                    # obligations above): keeps the rounded consideration syntactically identical on both sides
                    fr = (Fraction(self.cfg['fee'][0]) + Fraction(self.cfg['fee'][1])) if self.cfg['fee'] else 0
                    c_rule = fr * L.abs(L.round0(R(g[0]['price']) * R(g[0]['quantity']))) if self.cfg['fee'] else 0
                    obl.append(('%s:%s:commission' % (t, a), L.ne(g[0]['commission'], c_rule)))
                else:
                    obl.append(('%s:%s:order_missing' % (t, a), L.ne(q_ref, 0)))
        obl.append(('final_cash', L.ne(run['cash'], ref['cash'])))
        for a in self.A:
            h = run['holdings'].get(a, 0)
            obl.append(('final_holding[%s]' % a, L.ne(h, ref['holdings'][a])))
        obl.append(('equity_dates', L.bool([d for d, _ in run['equity']] != [d for d, _ in ref['equity']])))
        for (d, v), (d2, v2) in zip(run['equity'], ref['equity']):
            obl.append(('equity@%s' % d.date(), L.ne(v, v2)))
        # the sizing rules presuppose a positive portfolio equity at every sizing instant (as C10/C11 do): a market that
        # drives equity to zero or below is outside the claim
        pos = L.And(*[L.gt(e, 0) for e in ref['sizing_equity']]) if ref['sizing_equity'] else L.true
        return [(n, L.And(pos, f)) for n, f in obl]

    def twins(self, L, i, out):
        if out.kind != 'ok':
            return []
        return [('traded', L.bool(len(out.value['base']['fills']) > 0))]

    def observe(self, i, out):
        if out.kind != 'ok':
            return (out.kind, type(out.value).__name__)
        b = out.value['base']
        return dict(equity=[v for _, v in b['equity']], fills=[(str(f['dt']), f['asset'], f['quantity'], f['price'], f['commission']) for f in b['fills']],
                    cash=b['cash'], holdings=b['holdings'], err=str(b['err']), history=[(h['debit'], h['credit'], h['balance']) for h in b['history']])

    def describe(self, i, out):
        if out.kind != 'ok':
            return str(out.value)[:300]
        b = out.value['base']
        d = dict(equity=[(str(d), v) for d, v in b['equity']], fills=[(str(f['dt']), f['asset'], f['quantity'], f['price'], f['commission']) for f in b['fills']],
                 cash=b['cash'], holdings=b['holdings'], err=str(b['err']))
        if 'alt' in out.value:
            d['alternative_worlds'] = {T: dict(equity=[(str(x), v) for x, v in w['equity']], err=str(w['err'])) for T, w in out.value['alt'].items()}
        return d
