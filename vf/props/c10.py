"""C10 - long-only sizing never budgets more than the cash-buffered equity.

Real code: DollarWeightedCashBufferedOrderSizer (__init__, _check_set_cash_buffer, _normalise_weights,
__call__), PercentFeeModel / ZeroFeeModel.  Stubs: broker (total equity = symbolic E, fee_model = the
real fee model), data handler (ask = symbolic price or NaN).
"""
import itertools
from fractions import Fraction
from vf.engine.driver import Harness

EXPLANATION = ('Every path of the real sizer is executed on symbolic weights, prices, equity, buffer and fee rates; '
               'per path z3 decides the per-asset affordability bounds, the total budget bound, integrality, the '
               'rejection of every invalid input with ValueError and the acceptance of every valid one.')
ASSUMPTIONS = [
    'exact real arithmetic stands in for IEEE doubles',
    'equity > 0, prices > 0 (or NaN where the configuration says so), fee rates >= 0 with commission+tax <= 1',
    'weight sum is 0 or > 2e-8 when all weights are non-negative (the code documents that sums "very close to zero" are not rescaled)',
    'np.floor/int/np.isclose/np.isnan shims of DESIGN.md section 1.3',
    'broker stub: get_portfolio_total_equity returns the symbolic equity; data handler stub returns the symbolic ask',
]
DEADLINE = {'quick': 900, 'thorough': 3000}
NAMES = ['EQ:A', 'EQ:B', 'EQ:C', 'EQ:D', 'EQ:E']


def configs(tier):
    out = []
    ns = [1, 2] if tier == 'quick' else [1, 2, 3, 4]
    for n in ns:
        out.append(dict(name='lo_N%d_percentfee' % n, n=n, fee='percent', nan=[], weight=n * n,
                        bound='N=%d assets, all of weights/prices/equity/buffer/fee rates symbolic reals' % n,
                        twins=['positive_quantity', 'rejected'] + (['fee_matters'] if n <= 2 else [])))
        out.append(dict(name='lo_N%d_zerofee' % n, n=n, fee='zero', nan=[], weight=n,
                        bound='N=%d assets, ZeroFeeModel' % n, twins=['positive_quantity']))
        for k in range(n):
            out.append(dict(name='lo_N%d_nan%d' % (n, k), n=n, fee='percent', nan=[k], weight=n,
                            bound='N=%d assets, price of asset %d unavailable (NaN)' % (n, k), twins=['rejected']))
    out.append(dict(name='lo_N0', n=0, fee='percent', nan=[], bound='empty weight dictionary', twins=[]))
    return out


def make(cfg):
    return LongOnly(cfg)


class LongOnly(Harness):
    prop = 'C10'

    def inputs(self, mk):
        n = self.cfg['n']
        A = NAMES[:n]
        return dict(A=A, E=mk.real('E'), b=mk.real('b'), cr=mk.real('cr'), tr=mk.real('tr'),
                    w={a: mk.real('w_' + a[-1]) for a in A},
                    p={a: (float('nan') if i in self.cfg['nan'] else mk.real('p_' + a[-1])) for i, a in enumerate(A)})

    def _valid_weights(self, L, i):
        return L.And(*[L.ge(w, 0) for w in i['w'].values()])

    def assume(self, L, i):
        cs = [L.gt(i['E'], 0), L.ge(i['cr'], 0), L.ge(i['tr'], 0), L.le(L.num(i['cr']) + L.num(i['tr']), 1)]
        cs += [L.gt(p, 0) for p in i['p'].values() if not L.is_nan(p)]
        ws = L.sum(i['w'].values())
        if i['A']:
            cs.append(L.Implies(self._valid_weights(L, i), L.Or(L.eq(ws, 0), L.gt(ws, Fraction(2, 10 ** 8)))))
        return cs

    def friendly(self, L, i):
        cs = [L.le(i['E'], 10 ** 7), L.ge(i['E'], 1000), L.le(i['b'], 4), L.ge(i['b'], -4)]
        cs += [L.And(L.ge(p, 1), L.le(p, 1000)) for p in i['p'].values() if not L.is_nan(p)]
        cs += [L.And(L.ge(w, -4), L.le(w, 4)) for w in i['w'].values()]
        return cs

    def run(self, i):
        from qstrader.portcon.order_sizer.dollar_weighted import DollarWeightedCashBufferedOrderSizer
        from qstrader.broker.fee_model.percent_fee_model import PercentFeeModel
        from qstrader.broker.fee_model.zero_fee_model import ZeroFeeModel
        fee = PercentFeeModel(i['cr'], i['tr']) if self.cfg['fee'] == 'percent' else ZeroFeeModel()

        class Broker:
            fee_model = fee

            def get_portfolio_total_equity(s, pid):
                return i['E']

        class DH:
            def get_asset_latest_ask_price(s, dt, a):
                return i['p'][a]
        sizer = DollarWeightedCashBufferedOrderSizer(Broker(), 'p', DH(), cash_buffer_percentage=i['b'])
        return sizer(None, dict(i['w']))

    def oracle(self, L, i, out):
        A = i['A']
        f = (L.num(i['cr']) + L.num(i['tr'])) if self.cfg['fee'] == 'percent' else 0
        buf_ok = L.And(L.ge(i['b'], 0), L.le(i['b'], 1))
        w_ok = self._valid_weights(L, i)
        has_nan = any(L.is_nan(p) for p in i['p'].values())
        valid = L.And(buf_ok, w_ok) if A else buf_ok
        obl = []
        if out.kind == 'raise':
            obl.append(('rejection_is_ValueError', L.bool(not isinstance(out.value, ValueError))))
            # a valid input (with every price available) must not be rejected
            obl.append(('valid_input_rejected', L.false if (has_nan and A) else valid))
            return obl
        if out.kind != 'ok':
            obl.append(('result_defined', L.true))
            return obl
        res = out.value
        obl.append(('invalid_input_accepted', L.Not(valid)))
        if has_nan and A:
            obl.append(('nan_price_accepted', valid))
            return obl
        obl.append(('keys_are_the_weighted_assets', L.bool(sorted(res.keys()) != sorted(A))))
        if sorted(res.keys()) != sorted(A):
            return obl
        ws = L.sum(i['w'].values())
        E, b = L.num(i['E']), L.num(i['b'])
        tot = 0
        for a in A:
            q = res[a]['quantity']
            share = L.ite(L.eq(ws, 0), 0, (1 - b) * E * L.num(i['w'][a]) / L.ite(L.eq(ws, 0), 1, ws))
            fee = f * share
            pa = L.num(i['p'][a])
            qn = L.num(q)
            obl.append(('quantity_integral[%s]' % a, L.And(valid, L.Not(L.is_int(q)))))
            obl.append(('quantity_nonnegative[%s]' % a, L.And(valid, L.lt(qn, 0))))
            obl.append(('cost_plus_fee_within_share[%s]' % a, L.And(valid, L.gt(qn * pa + fee, share))))
            obl.append(('one_more_share_would_exceed[%s]' % a, L.And(valid, L.le((qn + 1) * pa + fee, share))))
            obl.append(('zero_weights_zero_target[%s]' % a, L.And(valid, L.eq(ws, 0), L.ne(qn, 0))))
            tot = tot + qn * pa
        if A:
            obl.append(('total_cost_within_buffered_equity', L.And(valid, L.gt(tot, (1 - b) * E))))
        return obl

    def twins(self, L, i, out):
        tw = []
        if out.kind == 'raise':
            tw.append(('rejected', L.true))
        if out.kind == 'ok' and i['A'] and not any(L.is_nan(p) for p in i['p'].values()):
            a = i['A'][0]
            q = L.num(out.value[a]['quantity'])
            tw.append(('positive_quantity', L.gt(q, 0)))
            if self.cfg['fee'] == 'percent':
                E, b = L.num(i['E']), L.num(i['b'])
                ws = L.sum(i['w'].values())
                # with fees the quantity can be strictly below the fee-less floor
                tw.append(('fee_matters', L.And(L.gt(ws, 0), L.le((q + 1) * L.num(i['p'][a]), (1 - b) * E * L.num(i['w'][a]) / ws))))
        return tw

    def observe(self, i, out):
        if out.kind == 'ok':
            return {a: v['quantity'] for a, v in out.value.items()}
        return (out.kind, type(out.value).__name__)

    def describe(self, i, out):
        if out.kind == 'ok':
            return {a: v['quantity'] for a, v in out.value.items()}
        return '%s: %s' % (type(out.value).__name__, str(out.value)[:200])
