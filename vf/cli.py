"""./vcheck run <ID> [--tier quick|thorough] [--workers N] | ./vcheck replay <path> | ./vcheck list"""
import argparse, os, sys

PROPS = {
    'C01': 'vf.props.c01', 'C02': 'vf.props.c02', 'C03': 'vf.props.c03', 'C04': 'vf.props.c04',
    'C05': 'vf.props.c05', 'C06': 'vf.props.c06', 'C07': 'vf.props.c07', 'C08': 'vf.props.c08',
    'C09': 'vf.props.c09', 'C10': 'vf.props.c10', 'C11': 'vf.props.c11', 'C14': 'vf.props.c14',
    'C15': 'vf.props.c15', 'C16': 'vf.props.c16', 'C17': 'vf.props.c17', 'C18': 'vf.props.c18',
    'C19': 'vf.props.c19',
}


def main(argv=None):
    ap = argparse.ArgumentParser(prog='vcheck')
    sub = ap.add_subparsers(dest='cmd', required=True)
    r = sub.add_parser('run')
    r.add_argument('prop')
    r.add_argument('--tier', default=os.environ.get('VERIF_TIER', 'quick'), choices=['quick', 'thorough'])
    r.add_argument('--workers', type=int, default=None)
    r.add_argument('--only', default=None, help='regex on configuration names (debugging; evidence says so)')
    p = sub.add_parser('replay')
    p.add_argument('path')
    sub.add_parser('list')
    a = ap.parse_args(argv)
    repo = os.environ.get('VERIF_REPO', '/repo')
    if repo not in sys.path:
        sys.path.insert(0, repo)
    if a.cmd == 'list':
        for k, v in sorted(PROPS.items()):
            print(k, v)
        return 0
    from vf.engine import driver
    if a.cmd == 'replay':
        return driver.replay_file(a.path)
    prop = a.prop.upper()
    if prop not in PROPS:
        print('unknown property', prop)
        return 2
    seed = int(os.environ.get('VERIF_SEED', '0') or 0)
    import importlib
    mod = importlib.import_module(PROPS[prop])
    if a.only:
        import re
        orig = mod.configs
        mod.configs = lambda tier: [c for c in orig(tier) if re.search(a.only, c['name'])]
    runner = getattr(mod, 'main', None)
    if runner is not None:
        return runner(a.tier, seed, a.workers)
    return driver.run_property(prop, PROPS[prop], a.tier, seed=seed, workers=a.workers)


if __name__ == '__main__':
    sys.exit(main())
