"""Per-path checking (worker side) and job scheduling / evidence (parent side)."""
import json, os, sys, time, hashlib, re, traceback, collections
from fractions import Fraction

ROOT = os.path.dirname(os.path.dirname(os.path.dirname(os.path.abspath(__file__))))
REPO = os.environ.get('VERIF_REPO', '/repo')
OUT = os.environ.get('VERIF_OUT', ROOT)        # evidence/ and replays/ live here (mutation trials redirect it)


class Outcome:
    def __init__(self, kind, value):
        self.kind = kind          # ok | raise | undefined
        self.value = value

    @property
    def ok(self):
        return self.kind == 'ok'

    def __repr__(self):
        return 'Outcome(%s, %s)' % (self.kind, type(self.value).__name__ if self.kind == 'raise' else '')


class Harness:
    """One bounded configuration of one property.  Subclasses implement inputs/assume/run/oracle."""
    prop = None
    validate = True              # per-path witness replay against the real float code
    obligation_timeout_ms = 30000
    feasibility_timeout_ms = 10000
    symbolic_arrays = False      # np.zeros -> object array

    def __init__(self, cfg):
        self.cfg = cfg

    def inputs(self, mk):
        raise NotImplementedError

    def assume(self, L, inp):
        return []

    def friendly(self, L, inp):
        """extra constraints tried first when asking for a counterexample (readable, float-robust)"""
        return []

    def run(self, inp):
        raise NotImplementedError

    def oracle(self, L, inp, out):
        raise NotImplementedError

    def twins(self, L, inp, out):
        return []

    def observe(self, inp, out):
        """what the per-path witness validation compares between symbolic and float run"""
        return out.value if out.kind == 'ok' else (out.kind, type(out.value).__name__)

    def describe(self, inp, out):
        return None


# --------------------------------------------------------------------------------------------
# worker side
_W = {}


def _worker_init():
    import warnings
    warnings.simplefilter('ignore')
    sys.setrecursionlimit(20000)
    if REPO not in sys.path:
        sys.path.insert(0, REPO)
    _start_monitoring()


_FUNCS = set()


def _start_monitoring():
    try:
        mon = sys.monitoring
        tid = mon.PROFILER_ID
        try:
            mon.use_tool_id(tid, 'verif')
        except ValueError:
            return
        prefix = os.path.join(REPO, 'qstrader')

        def on_start(code, off):
            fn = code.co_filename
            if fn.startswith(prefix):
                _FUNCS.add('%s:%s' % (os.path.relpath(fn, REPO), code.co_qualname))
            return mon.DISABLE
        mon.register_callback(tid, mon.events.PY_START, on_start)
        mon.set_events(tid, mon.events.PY_START)
    except Exception:
        pass


def _origin_in_repo(exc):
    """did the exception originate in code of the repository (vs. the harness / libraries it called)?"""
    tb = exc.__traceback__
    frames = []
    while tb is not None:
        frames.append(tb.tb_frame.f_code.co_filename)
        tb = tb.tb_next
    if not frames:
        return False
    vroot = ROOT + os.sep
    # innermost frame that is either harness or repo code decides
    for fn in reversed(frames):
        if fn.startswith(os.path.join(REPO, '')):
            return True
        if fn.startswith(vroot) and os.sep + '.venv' + os.sep not in fn:
            if fn.startswith(os.path.join(vroot, 'vf', 'engine', '')) and not fn.endswith('driver.py'):
                continue        # proxies and shims stand in for library code: transparent
            return False
    return False


def _flatten(x, path, out):
    from .core import Sym, SymBool, Undefined, LogSym
    from .symtime import SymTimestamp
    import numpy as np, pandas as pd
    if isinstance(x, dict):
        out.append((path + '#keys', ('keys', [str(k) for k in x.keys()])))
        for k, v in x.items():
            _flatten(v, '%s.%s' % (path, k), out)
    elif isinstance(x, (list, tuple, collections.deque)):
        out.append((path + '#len', ('len', len(x))))
        for i, v in enumerate(x):
            _flatten(v, '%s[%d]' % (path, i), out)
    elif isinstance(x, (pd.Series, pd.DataFrame)):
        out.append((path + '#index', ('idx', [str(i) for i in x.index])))
        vals = x.to_numpy().ravel().tolist()
        _flatten(vals, path + '.values', out)
    elif isinstance(x, np.ndarray):
        _flatten(x.ravel().tolist(), path, out)
    elif isinstance(x, Sym):
        out.append((path, ('sym', x.e)))
    elif isinstance(x, SymTimestamp):
        out.append((path, ('symt', x.t)))
    elif isinstance(x, pd.Timestamp):
        from .symtime import from_timestamp
        out.append((path, ('t', from_timestamp(x) if x.tzinfo is not None else str(x))))
    elif isinstance(x, Undefined):
        out.append((path, ('undef', None)))
    elif isinstance(x, bool) or x is None or isinstance(x, str):
        out.append((path, ('lit', x)))
    elif isinstance(x, (int, float, np.integer, np.floating)):
        v = x.item() if hasattr(x, 'item') else x
        out.append((path, ('num', v)))
    elif isinstance(x, BaseException):
        out.append((path, ('lit', type(x).__name__)))
    else:
        out.append((path, ('lit', type(x).__name__)))


def _compare_observations(sym_obs, con_obs, env, tol=1e-6):
    """sym_obs evaluated under env (exact rationals) vs con_obs (floats). Returns None or a message."""
    from . import evalq
    import math
    a, b = [], []
    _flatten(sym_obs, 'out', a)
    _flatten(con_obs, 'out', b)
    if len(a) != len(b):
        return 'shape differs: %d vs %d leaves' % (len(a), len(b))
    memo = {}
    # absolute slack for cancellation: a result that is the small difference of large products (cash = transfers - price x
    # quantity - fees) carries an absolute double error proportional to the size of the operands, not of the result
    S = 1.0
    for v in env.values():
        if not isinstance(v, bool):
            try:
                S = max(S, abs(float(v)))
            except Exception:
                pass
    slack = 1e-12 * S * S
    for (pa, (ka, va)), (pb, (kb, vb)) in zip(a, b):
        if pa != pb:
            return 'structure differs at %s vs %s' % (pa, pb)
        if ka in ('sym', 'symt'):
            try:
                ev = evalq.evaluate(va, env, memo)
            except evalq.EvalError as e:
                return 'cannot evaluate %s: %s' % (pa, e)
            if kb == 't':
                if int(ev) != vb:
                    return 'time differs at %s: %s vs %s' % (pa, ev, vb)
                continue
            if kb == 'undef':
                return 'defined vs undefined at %s' % pa
            if kb != 'num':
                return 'kind differs at %s: %s vs %s' % (pa, ka, kb)
            fv = float(ev)
            if vb != vb or math.isinf(vb):
                return 'nan/inf in float run at %s' % pa
            if abs(fv - vb) > tol * (1 + max(abs(fv), abs(vb))) + slack:
                return 'value differs at %s: symbolic %r vs float run %r' % (pa, fv, vb)
        elif ka == 'undef':
            if not (kb == 'num' and (vb != vb or math.isinf(vb))):
                return 'undefined vs %s at %s' % (vb, pa)
        elif ka == 'num' and kb == 'num':
            if va != va and vb != vb:
                continue
            if abs(va - vb) > tol * (1 + max(abs(va), abs(vb))):
                return 'value differs at %s: %r vs %r' % (pa, va, vb)
        else:
            if (ka, va) != (kb, vb):
                return 'differs at %s: %r vs %r' % (pa, (ka, va), (kb, vb))
    return None


def _jsonable(x):
    if isinstance(x, Fraction):
        return float(x) if x.denominator != 1 else int(x)
    if isinstance(x, (bool, int, float, str)) or x is None:
        return x
    return str(x)


class PathChecker:
    """Everything that happens for one (harness, prefix)."""

    def __init__(self, h):
        from . import core, shims, logic
        self.h = h
        self.core, self.shims, self.logic = core, shims, logic
        import z3
        self.z3 = z3
        self.mk = logic.SymMaker()
        shims.install()
        self.ex = core.Explorer(timeout_ms=h.feasibility_timeout_ms)
        self.ex.symbolic_arrays = h.symbolic_arrays
        core.set_explorer(self.ex)
        self.inp = h.inputs(self.mk)
        self.base = [logic.Z3Logic().bool(c) for c in h.assume(logic.Z3Logic(), self.inp)]
        self.ex.base = list(self.base)
        self.friendly = None
        self.reproduced = 0
        self.seen = {}
        self.twins_ok = set()
        self.last_env = None
        self.npaths = 0
        self.model_timeout_ms = 5000

    # -- model -> float-exact environment
    def _values_from_model(self, m):
        from . import evalq
        vals = {}
        for name, kind in self.mk.decl.items():
            v = evalq.model_value(m, self.mk.const(name))
            if kind == 'real':
                v = float(v)
            elif kind in ('int', 'time'):
                v = int(v)
            vals[name] = v
        return vals

    def _env(self, vals, m):
        """exact rational environment for evalq: inputs as the exact value of their floats, fresh
        (sqrt) variables recomputed from their definitions."""
        from . import evalq
        import math
        env = {}
        for name, v in vals.items():
            env[name] = v if isinstance(v, bool) else Fraction(v)
        return env

    def _pc_holds(self, env):
        from . import evalq
        memo = {}
        for c, tag in zip(self.base + self.ex.pc, [None] * len(self.base) + self.ex.tags):
            if tag and tag[0] == 'sqrt':
                continue            # r*r == x holds only approximately for the float sqrt
            try:
                if not evalq.evaluate(c, env, memo):
                    return False
            except evalq.EvalError:
                return False
        return True

    def _near_rounding_boundary(self, env, eps=Fraction(1, 10 ** 6)):
        from . import evalq
        import math
        for tag in self.ex.tags:
            if not tag or tag[0] not in ('floor', 'round0', 'round2'):
                continue
            try:
                x = evalq.evaluate(tag[1], env)
            except evalq.EvalError:
                continue
            if tag[0] == 'round2':
                x = x * 100
            fr = x - math.floor(x)
            if tag[0] == 'floor':
                if fr < eps or fr > 1 - eps:
                    return True
            elif abs(fr - Fraction(1, 2)) < eps:
                return True
        return False

    def _tight_comparison(self, env):
        """does some branch decision of this path hold with exact equality of its two sides under the witness?  Then the
        float run (which rounds every operation) may legitimately take the other branch."""
        from . import evalq
        z3 = self.z3
        ops = (z3.Z3_OP_LE, z3.Z3_OP_GE, z3.Z3_OP_LT, z3.Z3_OP_GT, z3.Z3_OP_EQ, z3.Z3_OP_DISTINCT)
        memo = {}
        for c, tag in zip(self.ex.pc, self.ex.tags):
            if tag is not None:
                continue
            a = c.arg(0) if z3.is_not(c) else c
            if not z3.is_app(a) or a.decl().kind() not in ops or a.num_args() != 2:
                continue
            if a.arg(0).sort().kind() != z3.Z3_REAL_SORT:
                continue
            if z3.is_rational_value(a.arg(0)) and z3.is_const(a.arg(1)) or z3.is_rational_value(a.arg(1)) and z3.is_const(a.arg(0)):
                continue            # an input compared with a constant is exact in floats as well
            try:
                if evalq.evaluate(a.arg(0), env, memo) == evalq.evaluate(a.arg(1), env, memo):
                    return True
            except evalq.EvalError:
                continue
        return False

    def _knife_edge(self):
        z3 = self.z3
        for c, tag in zip(self.ex.pc, self.ex.tags):
            if tag is None and z3.is_eq(c) and c.arg(0).sort().kind() == z3.Z3_REAL_SORT:
                if not (z3.is_rational_value(c.arg(0)) and z3.is_const(c.arg(1))) and not (z3.is_rational_value(c.arg(1)) and z3.is_const(c.arg(0))):
                    return True
        return False

    def _interior(self):
        """keep integer-part arguments away from their boundaries (float-robust witnesses)"""
        z3 = self.z3
        cs = []
        for tag in self.ex.tags:
            if not tag:
                continue
            if tag[0] == 'floor':
                x, n = tag[1], z3.ToReal(tag[2])
                cs.append(z3.Or(x == n, z3.And(x >= n + z3.Q(1, 16), x <= n + z3.Q(15, 16))))
            elif tag[0] == 'round0':
                x, n = tag[1], z3.ToReal(tag[2])
                cs.append(z3.And(x - n <= z3.Q(7, 16), n - x <= z3.Q(7, 16)))
            elif tag[0] == 'round2':
                x, r = tag[1], tag[2]
                cs.append(z3.And(x - r <= z3.Q(7, 1600), r - x <= z3.Q(7, 1600)))
        return cs

    def _dyadic(self):
        """prefer witnesses whose real inputs are exactly representable floats (k/1024)"""
        z3 = self.z3
        cs = []
        for name, kind in self.mk.decl.items():
            if kind == 'real':
                cs.append(1024 * z3.Real(name) == z3.ToReal(z3.Int('dy!' + name)))
        return cs

    def concrete_run(self, vals):
        """run the same harness on the real, un-shimmed code with float inputs"""
        from .logic import ConcreteMaker
        core = self.core
        self.shims.uninstall()
        core.set_explorer(None)
        try:
            cinp = self.h.inputs(ConcreteMaker(vals))
            try:
                import warnings
                with warnings.catch_warnings():
                    warnings.simplefilter('ignore')
                    out = Outcome('ok', self.h.run(cinp))
            except Exception as e:
                if not _origin_in_repo(e) and not getattr(e, 'from_repo', False):
                    raise
                out = Outcome('raise', e)
            return cinp, out
        finally:
            self.shims.install()
            core.set_explorer(self.ex)

    def _models(self, s, extra_sets, limit):
        """yield up to `limit` models of the assertions of solver s, preferring the extra constraint sets in order
        (fresh one-shot solvers: z3's incremental core is much weaker on nonlinear goals)"""
        z3 = self.z3
        base = list(s.assertions())
        n = 0
        unknowns = 0
        for extra in extra_sets:
            if unknowns >= 2:
                return
            block = []
            got = 0
            while n < limit and got < 3:
                s1 = z3.Solver()
                s1.add(*base)
                s1.add(*extra)
                s1.add(*block)
                r = self.core.timed_check(s1, self.model_timeout_ms)
                if r == z3.unknown:
                    unknowns += 1
                if r != z3.sat:
                    break
                m = s1.model()
                yield m
                n += 1
                got += 1
                lits = []
                for name, kind in self.mk.decl.items():
                    c = self.mk.const(name)
                    lits.append(c != m.eval(c, model_completion=True))
                block.append(z3.Or(*lits))
            if n >= limit:
                return

    def check(self, prefix):
        z3, core, ex, h = self.z3, self.core, self.ex, self.h
        res = dict(kind=None, obligations=0, discharged=0, trivial=0, unknown=[], violations=[], unreproduced=[], also_sat=[],
                   twins={}, validated=0, validation_skipped=0, validation_knife_edge=0, strategies={}, validation_failed=[], inconclusive=[], outside=0, sample=None, decisions=0,
                   solver_s=0.0, pending=[])
        t0 = time.time()
        kind, val, pending = ex.run_path(prefix, lambda: h.run(self.inp))
        if kind == 'raise' and isinstance(val, z3.Z3Exception):
            # solver-library hiccup (e.g. a late interrupt): the path is simply executed again
            kind, val, pending = ex.run_path(prefix, lambda: h.run(self.inp))
        res['pending'] = pending
        res['decisions'] = len(ex.trace)
        res['kind'] = kind
        if kind == 'raise' and not _origin_in_repo(val):
            raise core.HarnessError('harness raised %s: %s\n%s' % (
                type(val).__name__, val, ''.join(traceback.format_exception(val))[-1500:]))
        if kind == 'inconclusive':
            res['inconclusive'].append('path %s: %s' % (''.join('1' if b else '0' for b in ex.trace), val))
            return res
        if kind == 'outside':
            res['outside'] = 1
            return res
        out = Outcome(kind, val)
        L = self.logic.Z3Logic()
        ex.frozen = True
        try:
            obls = h.oracle(L, self.inp, out)
            twins = h.twins(L, self.inp, out)
        finally:
            ex.frozen = False
        s = z3.Solver()
        s.set('timeout', h.obligation_timeout_ms)
        s.add(*self.base)
        s.add(*ex.pc)
        s.add(*L.axioms)
        ts = time.time()
        lemmas = []
        for name, viol in obls:
            res['obligations'] += 1
            viol = L.bool(viol)
            sv = z3.simplify(viol)
            if z3.is_false(sv):
                res['discharged'] += 1
                res['trivial'] += 1
                continue
            s.push()
            s.add(viol)
            tq = time.time()
            # a fresh one-shot solver per obligation: z3's incremental core is much weaker on nonlinear goals
            r, how = core.robust_check(self.base + ex.pc + L.axioms + lemmas + [viol], h.obligation_timeout_ms, res['strategies'])
            if r == z3.unsat and getattr(h, 'chain_lemmas', False):
                # a discharged obligation is a consequence of the path condition: later obligations of the same path may use it
                lemmas.append(z3.Not(viol))
            if os.environ.get('VERIF_TRACE'):
                print('   obligation %-50s %s %.2fs' % (name, r, time.time() - tq), flush=True)
            if r == z3.unsat:
                res['discharged'] += 1
            elif r == z3.unknown:
                res['unknown'].append('%s [timeout]' % name)
                if os.environ.get('VERIF_DUMP_UNKNOWN'):
                    os.makedirs(os.environ['VERIF_DUMP_UNKNOWN'], exist_ok=True)
                    fn = os.path.join(os.environ['VERIF_DUMP_UNKNOWN'], '%s_%s.smt2' % (re.sub(r'[^A-Za-z0-9]+', '_', name)[:60], os.getpid()))
                    s1 = z3.Solver()
                    s1.add(*(self.base + ex.pc + L.axioms + [viol]))
                    open(fn, 'w').write(s1.to_smt2())
            else:
                self._counterexample(s, name, res)
            s.pop()
        pending_twins = []
        for name, f in twins:
            if name in self.twins_ok:
                continue                       # already witnessed for this configuration
            f = L.bool(f)
            if z3.is_false(z3.simplify(f)):
                res['twins'][name] = False
                continue
            if z3.is_true(z3.simplify(f)):
                res['twins'][name] = True
                self.twins_ok.add(name)
                continue
            pending_twins.append((name, f))
        self.last_env = None
        res['solver_s'] = time.time() - ts
        # witness validation
        self.npaths += 1
        ve = int(h.cfg.get('validate_every', 1)) if isinstance(getattr(h, 'cfg', None), dict) else 1
        if h.validate and not res['violations'] and not res['also_sat'] and (self.npaths % ve == 0 or self.npaths <= 2):
            self._validate(s, out, res)
        # reachability twins: first on the validated witness of this path (no solver needed), else by a query
        for name, f in pending_twins:
            ok = False
            if self.last_env is not None:
                try:
                    from . import evalq
                    ok = bool(evalq.evaluate(f, self.last_env))
                except Exception:
                    ok = False
            if not ok:
                r, _ = core.robust_check(self.base + ex.pc + L.axioms + [f], 20000)
                ok = (r == z3.sat)
            res['twins'][name] = ok
            if ok:
                self.twins_ok.add(name)
        if res['sample'] is None:
            res['sample'] = self._sample(s, out)
        return res

    def _friendly(self):
        if self.friendly is None:
            L = self.logic.Z3Logic()
            self.friendly = [L.bool(c) for c in self.h.friendly(L, self.inp)]
        return self.friendly

    def _counterexample(self, s, name, res):
        """s holds base+pc+axioms+violation and is sat.  Replay before reporting."""
        if self.seen.get(name, 0) >= 2 or self.reproduced >= 6:
            # this very obligation was already reproduced (twice) for this configuration: do not spend solver time again
            res['also_sat'].append(name)
            return
        tried = 0
        last = None
        dy = self._dyadic()
        sets = [self._friendly() + self._interior() + dy, self._friendly() + dy, self._friendly() + self._interior(),
                self._friendly(), self._interior() + dy, self._interior(), []]
        t_end = time.time() + 90
        self.model_timeout_ms = 8000
        for m in self._models(s, sets, 8):
            tried += 1
            if time.time() > t_end:
                break
            try:
                vals = self._values_from_model(m)
            except Exception as e:
                last = 'model value: %s' % e
                continue
            try:
                cinp, cout = self.concrete_run(vals)
                KL = self.logic.KleeneLogic()
                cobl = dict(self.h.oracle(KL, cinp, cout))
            except Exception as e:
                last = 'concrete replay failed: %s: %s' % (type(e).__name__, e)
                continue
            v = cobl.get(name)
            hit = name if (v is not None and self.logic._k(v).v is True) else None
            if hit is None:
                # the float run may violate the property through ANOTHER obligation (e.g. the symbolic run left the modelled
                # surface and raised, while the real code silently returns a wrong value): that is a reproduced violation too
                hit = next((n2 for n2, v2 in cobl.items() if self.logic._k(v2).v is True), None)
            if hit is None:
                last = 'obligation %s evaluates to %s on the float run' % (name, v)
                continue
            name = hit
            res['violations'].append(dict(obligation=name, values={k: _jsonable(v) for k, v in vals.items()},
                                          detail=_jsonable(self.h.describe(cinp, cout)),
                                          outcome=cout.kind + (':' + type(cout.value).__name__ if cout.kind == 'raise' else ''),
                                          path=''.join('1' if b else '0' for b in self.ex.trace)))
            self.reproduced += 1
            self.seen[name] = self.seen.get(name, 0) + 1
            return
        res['unreproduced'].append('%s (%d models tried; last: %s)' % (name, tried, last))

    def _validate(self, s, out, res):
        from . import evalq
        z3 = self.z3
        obs = self.h.observe(self.inp, out)
        msg = None
        tried = 0
        left_path = 0
        near_boundary = 0
        self.model_timeout_ms = 5000
        dy = self._dyadic()
        for m in self._models(s, [self._friendly() + self._interior() + dy, self._interior() + dy, dy,
                                  self._friendly() + self._interior(), self._interior(), []], 6):
            tried += 1
            try:
                vals = self._values_from_model(m)
                env = self._env(vals, m)
            except Exception as e:
                msg = 'witness: %s' % e
                continue
            if not self._pc_holds(env):
                left_path += 1
                continue
            try:
                cinp, cout = self.concrete_run(vals)
            except Exception as e:
                msg = 'concrete run failed: %s: %s' % (type(e).__name__, e)
                continue
            cobs = self.h.observe(cinp, cout)
            self.last_env = env
            msg = _compare_observations(obs, cobs, env)
            if msg is not None and (self._near_rounding_boundary(env) or self._tight_comparison(env)):
                # an integer-part argument sits within 1e-6 of its boundary: the float computation may round the other way
                near_boundary += 1
                msg = None
                continue
            if msg is None:
                res['validated'] += 1
                if res['sample'] is None:
                    res['sample'] = dict(path=''.join('1' if b else '0' for b in self.ex.trace), outcome=out.kind,
                                         witness={k: _jsonable(v) for k, v in vals.items()},
                                         float_run=_short(cobs))
                return
        if near_boundary and msg is None:
            res['validation_knife_edge'] += 1
            return
        if tried == 0 or tried == left_path or msg is None:
            # no model within the witness budget, or every model left the path once rounded to floats: not a mismatch
            res['validation_skipped'] += 1
            return
        if self._knife_edge():
            # the path requires an exact equality between computed reals; IEEE rounding can legitimately take the float
            # run down the neighbouring path (outside every claim, DESIGN.md 1.2): recorded, not a harness failure
            res['validation_knife_edge'] += 1
            return
        res['validation_failed'].append('path %s: %s' % (''.join('1' if b else '0' for b in self.ex.trace), msg))

    def _sample(self, s, out):
        return dict(path=''.join('1' if b else '0' for b in self.ex.trace), outcome=out.kind,
                    result=_short(self.h.observe(self.inp, out)))


def _short(x, n=600):
    from .core import Sym
    import z3

    def conv(v):
        if isinstance(v, Sym):
            return str(z3.simplify(v.e))[:120]
        if isinstance(v, dict):
            return {str(k): conv(w) for k, w in v.items()}
        if isinstance(v, (list, tuple)):
            return [conv(w) for w in v]
        if isinstance(v, (bool, int, float, str)) or v is None:
            return v
        return str(v)[:120]
    s = json.dumps(conv(x), default=str)
    return s if len(s) <= n else s[:n] + '...'


def _sample_rank(smp):
    # prefer a validated, normally completed, long path as the written-out example
    return (0 if smp.get('outcome') == 'ok' else 1, 0 if 'witness' in smp else 1, -len(smp.get('path', '')))


def run_job(job):
    """job: dict(prop, module, cfg, prefixes, max_paths, budget_s).  Returns a JSON-able summary."""
    import importlib
    t0 = time.time()
    key = (job['module'], json.dumps(job['cfg'], sort_keys=True))
    try:
        pc = _W.get(key)
        if pc is None:
            _W.clear()
            mod = importlib.import_module(job['module'])
            h = mod.make(job['cfg'])
            pc = PathChecker(h)
            _W[key] = pc
        for k, v in job.get('seen', {}).items():
            pc.seen[k] = max(pc.seen.get(k, 0), v)
        pc.twins_ok.update(job.get('twins_ok', []))
        stack = [list(p) for p in job['prefixes']]
        agg = dict(cfg=job['cfg'].get('name'), paths=0, decisions=0, obligations=0, discharged=0, trivial=0, unknown=[], validation_skipped=0, validation_knife_edge=0,
                   violations=[], unreproduced=[], twins={}, validated=0, validation_failed=[], inconclusive=[],
                   outside=0, samples=[], solver_s=0.0, kinds={}, leftover=[], feas_queries=0, feas_unknown=0,
                   error=None, also_sat=[], strategies={})
        q0, u0 = pc.ex.queries, pc.ex.unknown
        while stack:
            if agg['paths'] >= job['max_paths'] or time.time() - t0 > job['budget_s']:
                break
            prefix = stack.pop()
            r = pc.check(prefix)
            stack.extend(r['pending'])
            agg['paths'] += 1
            agg['kinds'][r['kind']] = agg['kinds'].get(r['kind'], 0) + 1
            for k in ('decisions', 'obligations', 'discharged', 'trivial', 'validated', 'validation_skipped', 'validation_knife_edge', 'outside', 'solver_s'):
                agg[k] += r[k]
            for k in ('unknown', 'violations', 'unreproduced', 'validation_failed', 'inconclusive', 'also_sat'):
                agg[k].extend(r[k])
            for k, v in r['twins'].items():
                agg['twins'][k] = agg['twins'].get(k, False) or v
            for k, v in r['strategies'].items():
                agg['strategies'][k] = agg['strategies'].get(k, 0) + v
            if r['sample']:
                agg['samples'].append(r['sample'])
                agg['samples'].sort(key=_sample_rank)
                del agg['samples'][2:]
        agg['leftover'] = stack
        agg['feas_queries'] = pc.ex.queries - q0
        agg['feas_unknown'] = pc.ex.unknown - u0
        agg['functions'] = sorted(_FUNCS)
        agg['wall_s'] = time.time() - t0
        return agg
    except BaseException as e:
        return dict(cfg=job['cfg'].get('name'), error='%s: %s\n%s' % (type(e).__name__, e, traceback.format_exc()[-3000:]),
                    paths=0, leftover=[], functions=sorted(_FUNCS))


# --------------------------------------------------------------------------------------------
# parent side
def load_known():
    p = os.path.join(ROOT, 'known_findings.json')
    if not os.path.exists(p):
        return dict(known=[], fixed=[])
    return json.load(open(p))


def _match_known(known, prop, cfgname, obligation):
    for k in known.get('known', []):
        if k['property'] != prop:
            continue
        if re.fullmatch(k.get('obligation', '.*'), obligation) and re.fullmatch(k.get('config', '.*'), cfgname or ''):
            return k
    return None


def source_digest(functions):
    files = sorted({f.split(':')[0] for f in functions})
    out = {}
    for f in files:
        try:
            out[f] = hashlib.sha256(open(os.path.join(REPO, f), 'rb').read()).hexdigest()[:16]
        except OSError:
            pass
    return out


def run_property(prop, module, tier, seed=0, workers=None, deadline_s=None, extra_evidence=None, pre=None):
    """Explore every configuration of `module` exhaustively, aggregate, write evidence, print verdict.
    Returns the exit code."""
    import importlib, random
    from concurrent.futures import ProcessPoolExecutor, wait, FIRST_COMPLETED
    import multiprocessing as mp
    t0 = time.time()
    mod = importlib.import_module(module)
    cfgs = mod.configs(tier)
    rnd = random.Random(seed)
    order = list(range(len(cfgs)))
    rnd.shuffle(order)          # the seed only orders the work queue
    # heavier configurations first
    order.sort(key=lambda i: -cfgs[i].get('weight', 1))
    workers = workers or min(16, os.cpu_count() or 4)
    deadline_s = deadline_s or getattr(mod, 'DEADLINE', {}).get(tier, 3600)
    per = {c['name']: dict(paths=0, decisions=0, obligations=0, discharged=0, trivial=0, unknown=[], violations=[], validation_skipped=0, validation_knife_edge=0,
                           unreproduced=[], twins={}, validated=0, validation_failed=[], inconclusive=[], outside=0,
                           samples=[], solver_s=0.0, kinds={}, feas_queries=0, feas_unknown=0, errors=[], leftover=0,
                           cpu_s=0.0, also_sat=[], strategies={})
           for c in cfgs}
    functions = set()
    pending_jobs = collections.deque()
    for i in order:
        pending_jobs.append(dict(prop=prop, module=module, cfg=cfgs[i], prefixes=[[]], gen=0,
                                 max_paths=2, budget_s=cfgs[i].get('chunk_s', 30)))
    ctx = mp.get_context('fork')
    timed_out = False
    seen_by_cfg = {}
    last_progress = time.time()
    from concurrent.futures.process import BrokenProcessPool
    crashes = 0

    known_ = load_known()

    def _unlisted(p, cfgname):
        return sum(1 for v in p['violations'] if _match_known(known_, prop, cfgname, v['obligation']) is None)

    def handle(j, a):
        p = per[j['cfg']['name']]
        functions.update(a.get('functions', []))
        for v in a.get('violations', []):
            seen_by_cfg.setdefault(j['cfg']['name'], {})
            seen_by_cfg[j['cfg']['name']][v['obligation']] = seen_by_cfg[j['cfg']['name']].get(v['obligation'], 0) + 1
        if a.get('error'):
            p['errors'].append(a['error'])
            return
        for k in ('paths', 'decisions', 'obligations', 'discharged', 'trivial', 'validated', 'validation_skipped', 'validation_knife_edge', 'outside', 'solver_s',
                  'feas_queries', 'feas_unknown'):
            p[k] += a[k]
        p['cpu_s'] += a.get('wall_s', 0)
        for k in ('unknown', 'violations', 'unreproduced', 'validation_failed', 'inconclusive', 'also_sat'):
            p[k].extend(a[k])
        for k, v in a['kinds'].items():
            p['kinds'][k] = p['kinds'].get(k, 0) + v
        for k, v in a['twins'].items():
            p['twins'][k] = p['twins'].get(k, False) or v
        for k, v in a.get('strategies', {}).items():
            p['strategies'][k] = p['strategies'].get(k, 0) + v
        p['samples'].extend(a['samples'])
        p['samples'].sort(key=_sample_rank)
        del p['samples'][2:]
        left = a['leftover']
        if _unlisted(p, j['cfg']['name']) >= 3:
            # this configuration already produced reproduced counterexamples (not counting listed known findings): the verdict is VIOLATION whatever the rest of
            # its path tree holds; do not spend the time budget on it (the evidence then says exhaustive=false)
            p['leftover'] += len(left)
            p['stopped_early'] = True
            left = []
        # split the leftover frontier into several jobs to spread the load
        n = max(1, min(len(left), workers))
        for k in range(n):
            chunk = left[k::n]
            if chunk:
                g = j.get('gen', 0) + 1
                # ramp up: tiny chunks first so that the frontier spreads over the workers quickly
                mp_ = min(j['cfg'].get('chunk', 40), 2 ** (g + 1))
                pending_jobs.append(dict(j, prefixes=chunk, gen=g, max_paths=mp_, retries=0))
    while (pending_jobs) and not timed_out:
        pool = ProcessPoolExecutor(max_workers=workers, mp_context=ctx, initializer=_worker_init)
        running = {}
        broken = False
        try:
            while pending_jobs or running:
                while pending_jobs and len(running) < workers * 2:
                    j = pending_jobs.popleft()
                    if _unlisted(per[j['cfg']['name']], j['cfg']['name']) >= 3:
                        per[j['cfg']['name']]['leftover'] += len(j['prefixes'])
                        per[j['cfg']['name']]['stopped_early'] = True
                        continue
                    j = dict(j, seen=dict(seen_by_cfg.get(j['cfg']['name'], {})),
                             twins_ok=[k for k, v in per[j['cfg']['name']]['twins'].items() if v])
                    running[pool.submit(run_job, j)] = j
                done, _ = wait(list(running), timeout=5, return_when=FIRST_COMPLETED)
                if time.time() - last_progress > 30:
                    last_progress = time.time()
                    print('[%4ds] %s: %d paths, %d jobs running, %d queued (%s)' % (
                        time.time() - t0, prop, sum(p['paths'] for p in per.values()), len(running), len(pending_jobs),
                        ', '.join('%s:%d' % (k[:18], v['paths']) for k, v in per.items() if v['paths'])[:300]), file=sys.stderr, flush=True)
                if time.time() - t0 > deadline_s:
                    timed_out = True
                    break
                for f in done:
                    j = running.pop(f)
                    try:
                        a = f.result()
                    except BrokenProcessPool:
                        running[f] = j
                        raise
                    except Exception as e:
                        a = dict(cfg=j['cfg']['name'], error='worker failed: %r' % e, paths=0, leftover=[], functions=[])
                    handle(j, a)
        except BrokenProcessPool:
            # a worker process died (a native crash inside the solver library): rebuild the pool and run the jobs that were
            # in flight again, one path at a time; a job that keeps killing its worker is reported, never passed over
            broken = True
            crashes += 1
            for f, j in list(running.items()):
                r = j.get('retries', 0) + 1
                if r > 3 or crashes > 12:
                    per[j['cfg']['name']]['errors'].append('worker process crashed repeatedly on prefixes %r' % (j['prefixes'][:2],))
                elif len(j['prefixes']) > 1:
                    for pf in j['prefixes']:
                        pending_jobs.appendleft(dict(j, prefixes=[pf], retries=r, max_paths=1))
                else:
                    pending_jobs.appendleft(dict(j, retries=r, max_paths=1))
            running = {}
        finally:
            try:
                pool.shutdown(wait=False, cancel_futures=True)
            except Exception:
                pass
            if timed_out or broken:
                for pr in list((getattr(pool, '_processes', None) or {}).values()):
                    try:
                        pr.kill()           # a worker inside a long solver call does not react to SIGTERM
                    except Exception:
                        pass
    for j in list(pending_jobs):
        per[j['cfg']['name']]['leftover'] += len(j['prefixes'])
    return finish(prop, mod, tier, seed, cfgs, per, functions, t0, timed_out, extra_evidence)


def finish(prop, mod, tier, seed, cfgs, per, functions, t0, timed_out, extra_evidence=None):
    known = load_known()
    violations, known_hits, problems = [], {}, []
    expected_twins = getattr(mod, 'TWINS', None)
    for c in cfgs:
        p = per[c['name']]
        for v in p['violations']:
            k = _match_known(known, prop, c['name'], v['obligation'])
            if k is not None:
                known_hits.setdefault(k['what'], []).append((c['name'], v))
            else:
                violations.append((c, v))
        if p['errors']:
            problems.append('%s: harness error: %s' % (c['name'], p['errors'][0][-1200:]))
        if p['unknown']:
            problems.append('%s: %d obligation(s) undecided (solver unknown), e.g. %s' % (c['name'], len(p['unknown']), p['unknown'][0]))
        repro_names = {v['obligation'] for v in p['violations']}
        p['unreproduced'] = [u for u in p['unreproduced'] if u.split(' (')[0] not in repro_names]
        if p['unreproduced']:
            problems.append('%s: %d counterexample(s) did not reproduce on the float code, e.g. %s' % (
                c['name'], len(p['unreproduced']), p['unreproduced'][0]))
        if p['inconclusive']:
            problems.append('%s: %d path(s) left the symbolic domain, e.g. %s' % (c['name'], len(p['inconclusive']), p['inconclusive'][0]))
        if p['validation_failed']:
            problems.append('%s: %d path witness(es) disagree with the float run, e.g. %s' % (
                c['name'], len(p['validation_failed']), p['validation_failed'][0]))
        if (p['leftover'] and not p.get('stopped_early')) or (timed_out and not p['errors'] and p['paths'] == 0):
            problems.append('%s: exploration not exhaustive (%d prefixes left)' % (c['name'], p['leftover']))
        for tw in c.get('twins', []):
            if not p['twins'].get(tw, False) and not p['errors']:
                problems.append('%s: reachability twin %r was not satisfiable (vacuous harness?)' % (c['name'], tw))
        if p['paths'] == 0 and not p['errors']:
            problems.append('%s: no path explored' % c['name'])
    if timed_out:
        problems.append('deadline reached before the exploration finished')
    # replay files + VIOLATION lines
    os.makedirs(os.path.join(OUT, 'replays', prop), exist_ok=True)
    lines = []
    for c, v in violations:
        rec = dict(property=prop, module=mod.__name__, cfg=c, obligation=v['obligation'], values=v['values'],
                   outcome=v['outcome'], detail=v['detail'], path=v['path'])
        h = hashlib.sha256(json.dumps(rec, sort_keys=True, default=str).encode()).hexdigest()[:12]
        path = os.path.join(OUT, 'replays', prop, '%s_%s.json' % (c['name'].replace('/', '_')[:40], h))
        json.dump(rec, open(path, 'w'), indent=1, default=str)
        lines.append((path, v['obligation'], c['name']))
    tot = lambda k: sum(per[c['name']][k] for c in cfgs)
    allsamples = []
    for c in cfgs:
        for s in per[c['name']]['samples'][:1]:
            allsamples.append(dict(config=c['name'], **s))
    exhaustive = not problems and not timed_out and not any(per[c['name']].get('stopped_early') for c in cfgs)
    ev = dict(
        property_id=prop, tier=tier, seed=seed, level='model_checking',
        coverage=dict(
            states=max(tot('paths'), 0), transitions=max(tot('decisions'), 0),
            traces_validated_against_impl=tot('validated'), paths_without_witness_in_budget=tot('validation_skipped'), knife_edge_paths_where_float_run_diverged=tot('validation_knife_edge'),
            samples=allsamples[:12] or [dict(note='no path explored')],
            obligations=tot('obligations'), discharged=tot('discharged'), discharged_trivially=tot('trivial'),
            undecided=sum(len(per[c['name']]['unknown']) for c in cfgs),
            exhaustive=exhaustive,
            paths_outside_claim=tot('outside'),
            branch_feasibility_queries=tot('feas_queries'), branch_feasibility_unknown=tot('feas_unknown'),
            solver_seconds=round(tot('solver_s'), 2), cpu_seconds=round(tot('cpu_s'), 1),
            solver_strategy_attempts={k: sum(per[c['name']]['strategies'].get(k, 0) for c in cfgs)
                                      for k in sorted({k for c in cfgs for k in per[c['name']]['strategies']})},
            configurations=[dict(name=c['name'], bound=c.get('bound', ''), paths=per[c['name']]['paths'],
                                 path_kinds=per[c['name']]['kinds'],
                                 obligations=per[c['name']]['obligations'], discharged=per[c['name']]['discharged'],
                                 twins=per[c['name']]['twins'], validated=per[c['name']]['validated']) for c in cfgs],
            functions_executed=sorted(functions), source_sha256=source_digest(functions),
            explanation=getattr(mod, 'EXPLANATION', ''),
            problems=problems[:20], known_findings=sorted(known_hits),
        ),
        assumptions=list(getattr(mod, 'ASSUMPTIONS', [])),
        wall_s=round(time.time() - t0, 2), violations=len(violations),
    )
    if extra_evidence:
        ev['coverage'].update(extra_evidence)
    if ev['coverage']['states'] < 1:
        ev['coverage']['states'] = 1
    if ev['coverage']['transitions'] < 1:
        ev['coverage']['transitions'] = 1
    os.makedirs(os.path.join(OUT, 'evidence'), exist_ok=True)
    json.dump(ev, open(os.path.join(OUT, 'evidence', '%s.json' % prop), 'w'), indent=1, default=str)
    print('%s %s: %d configurations, %d paths, %d/%d obligations discharged, %d witnesses validated, %.1fs' % (
        prop, tier, len(cfgs), tot('paths'), tot('discharged'), tot('obligations'), tot('validated'), time.time() - t0))
    for what, hits in sorted(known_hits.items()):
        print('KNOWN-FINDING: property=%s %s' % (prop, what))
    for path, ob, cn in lines[:25]:
        print('VIOLATION property=%s replay=%s   (%s in %s)' % (prop, path, ob, cn))
    if lines:
        return 1
    if problems:
        for p in problems[:15]:
            print('INCONCLUSIVE: ' + p)
        return 2
    return 0


def replay_file(path):
    """re-run one recorded counterexample against the real float code"""
    import importlib
    rec = json.load(open(path))
    _worker_init()
    mod = importlib.import_module(rec['module'])
    h = mod.make(rec['cfg'])
    from .logic import ConcreteMaker, KleeneLogic, _k
    from . import shims
    shims.quiet()
    cinp = h.inputs(ConcreteMaker(rec['values']))
    try:
        out = Outcome('ok', h.run(cinp))
    except Exception as e:
        if not _origin_in_repo(e):
            raise
        out = Outcome('raise', e)
    KL = KleeneLogic()
    obl = dict(h.oracle(KL, cinp, out))
    v = obl.get(rec['obligation'])
    print('replay %s: property=%s config=%s obligation=%s' % (path, rec['property'], rec['cfg']['name'], rec['obligation']))
    print('  inputs: %s' % json.dumps(rec['values']))
    print('  outcome: %s %s' % (out.kind, (type(out.value).__name__ + ': ' + str(out.value)[:200]) if out.kind == 'raise' else ''))
    d = h.describe(cinp, out)
    if d is not None:
        print('  observed: %s' % json.dumps(d, default=str)[:2000])
    hit = v is not None and _k(v).v is True
    print('  violated on the real code: %s' % ('YES' if hit else 'no (%s)' % v))
    return 1 if hit else 0
