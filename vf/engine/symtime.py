"""Symbolic instants: a z3 Int of nanoseconds since EPOCH (a Monday 00:00 UTC)."""
import datetime
import z3
from .core import Sym, SymBool

NS = 10 ** 9
MIN = 60 * NS
HOUR = 3600 * NS
DAY = 86400 * NS
EPOCH_STR = '2020-01-06 00:00:00'       # a Monday


def epoch():
    import pandas as pd
    return pd.Timestamp(EPOCH_STR, tz='UTC')


def to_timestamp(ns):
    import pandas as pd
    return epoch() + pd.Timedelta(int(ns), unit='ns')


def from_timestamp(ts):
    return int((ts - epoch()).value)


class SymTime:
    def __init__(s, tod):
        s.tod = tod

    @staticmethod
    def _c(o):
        if isinstance(o, datetime.time):
            return ((o.hour * 60 + o.minute) * 60 + o.second) * NS + o.microsecond * 1000
        if isinstance(o, SymTime):
            return o.tod
        raise TypeError(type(o))

    def __lt__(s, o): return SymBool(s.tod < s._c(o))
    def __le__(s, o): return SymBool(s.tod <= s._c(o))
    def __gt__(s, o): return SymBool(s.tod > s._c(o))
    def __ge__(s, o): return SymBool(s.tod >= s._c(o))
    def __eq__(s, o): return SymBool(s.tod == s._c(o))
    def __ne__(s, o): return SymBool(s.tod != s._c(o))
    __hash__ = None


class SymTimestamp:
    """Offers what the code under test uses on a pd.Timestamp: ordering, weekday(), time(),
    strftime (placeholder)."""

    def __init__(s, t):
        s.t = t if z3.is_expr(t) else z3.IntVal(int(t))

    @staticmethod
    def _o(o):
        if isinstance(o, SymTimestamp):
            return o.t
        raise TypeError(type(o))

    def weekday(s):
        return Sym(z3.ToReal((s.t / DAY) % 7), True)

    def time(s):
        return SymTime(s.t % DAY)

    def date(s):
        return SymDate(s.t / DAY)

    def strftime(s, fmt):
        return '<ts>'

    def _cmp(s, o, f, dflt):
        if isinstance(o, SymTimestamp):
            return SymBool(f(s.t, o.t))
        if o is None:
            return dflt
        return NotImplemented

    def __lt__(s, o): return s._cmp(o, lambda a, b: a < b, NotImplemented)
    def __le__(s, o): return s._cmp(o, lambda a, b: a <= b, NotImplemented)
    def __gt__(s, o): return s._cmp(o, lambda a, b: a > b, NotImplemented)
    def __ge__(s, o): return s._cmp(o, lambda a, b: a >= b, NotImplemented)
    def __eq__(s, o): return s._cmp(o, lambda a, b: a == b, False)
    def __ne__(s, o): return s._cmp(o, lambda a, b: a != b, True)
    __hash__ = None

    def __repr__(s):
        return '<ts>'
    __str__ = __repr__


class SymDate:
    def __init__(s, d):
        s.d = d

    def __eq__(s, o): return SymBool(s.d == o.d)
    __hash__ = None


OPEN_TOD = (14 * 60 + 30) * MIN
CLOSE_TOD = 21 * HOUR


def exchange_open_spec(t):
    """the statement's exchange hours, written in integer arithmetic on t: Mon-Fri, 14:30 <= tod < 21:00"""
    return z3.And((t / DAY) % 7 <= 4, t % DAY >= OPEN_TOD, t % DAY < CLOSE_TOD)
