"""Symbolic instants: a z3 Int of nanoseconds since EPOCH (a Monday 00:00 UTC)."""
import datetime
import z3
from .core import Sym, SymBool

NS = 10 ** 9
MIN = 60 * NS
HOUR = 3600 * NS
DAY = 86400 * NS
EPOCH_STR = '2020-02-24 00:00:00'       # a Monday; the 40-60 day window after it contains the US (8 Mar) and EU (29 Mar) DST changes


def epoch():
    import pandas as pd
    return pd.Timestamp(EPOCH_STR, tz='UTC')


def to_timestamp(ns, tz=None):
    import pandas as pd
    t = epoch() + pd.Timedelta(int(ns), unit='ns')
    return t.tz_convert(tz) if tz not in (None, 'UTC') else t


def from_timestamp(ts):
    return int((ts - epoch()).value)


class SymTime:
    def __init__(s, tod):
        s.tod = tod

    @staticmethod
    def _c(o):
        if isinstance(o, datetime.time):
            return ((o.hour * 60 + o.minute) * 60 + o.second) * NS + o.microsecond * 1000
        if isinstance(o, SymTime):
            return o.tod
        raise TypeError(type(o))

    def __lt__(s, o): return SymBool(s.tod < s._c(o))
    def __le__(s, o): return SymBool(s.tod <= s._c(o))
    def __gt__(s, o): return SymBool(s.tod > s._c(o))
    def __ge__(s, o): return SymBool(s.tod >= s._c(o))
    def __eq__(s, o): return SymBool(s.tod == s._c(o))
    def __ne__(s, o): return SymBool(s.tod != s._c(o))
    __hash__ = None


def _zone(tz):
    """normalise a tz argument to a pytz zone (or None for naive)"""
    import pytz
    if tz is None:
        return None
    if isinstance(tz, str):
        return pytz.timezone(tz)
    return tz


def _is_utc(zone):
    return zone is not None and getattr(zone, 'zone', str(zone)) in ('UTC', 'utc')


_OFFSETS = {}


def zone_offset(zone, t):
    """UTC offset (ns) of `zone` at the UTC instant t, as a piecewise-constant z3 term over the window after EPOCH
    (the zone's real transition table from pytz; outside the window the last segment is extended)"""
    import datetime as _d, pytz
    if zone is None or _is_utc(zone):
        return z3.IntVal(0)
    key = getattr(zone, 'zone', str(zone))
    if key not in _OFFSETS:
        e0 = _d.datetime.strptime(EPOCH_STR, '%Y-%m-%d %H:%M:%S')
        e1 = e0 + _d.timedelta(days=90)
        trans = [tt for tt in getattr(zone, '_utc_transition_times', []) if e0 < tt < e1]

        def off_at(naive_utc):
            return int(pytz.utc.localize(naive_utc).astimezone(zone).utcoffset().total_seconds()) * NS
        segs = []
        cur = e0
        for tt in trans:
            segs.append((int((tt - e0).total_seconds()) * NS, off_at(cur + (tt - cur) / 2)))
            cur = tt
        _OFFSETS[key] = (segs, off_at(cur + _d.timedelta(days=1)))
    segs, last = _OFFSETS[key]
    term = z3.IntVal(last)
    for bound, off in reversed(segs):
        term = z3.If(t < bound, z3.IntVal(off), term)
    return term


class SymTimestamp:
    """Offers what the code under test uses on a pd.Timestamp: ordering, weekday(), time(), date(), strftime
    (placeholder), tzinfo / tz_convert / tz_localize.  `t` is the UTC instant in ns since EPOCH for an aware value
    (tz = a pytz zone, default UTC) and the wall-clock reading for a naive one (tz = None)."""

    def __init__(s, t, tz='UTC'):
        s.t = t if z3.is_expr(t) else z3.IntVal(int(t))
        s.tz = _zone(tz)

    @property
    def tzinfo(s):
        return s.tz

    @property
    def tz_(s):
        return s.tz

    def _wall(s):
        """local wall-clock reading in ns"""
        if s.tz is None or _is_utc(s.tz):
            return s.t
        return s.t + zone_offset(s.tz, s.t)

    def tz_convert(s, tz):
        if s.tz is None:
            raise TypeError('Cannot convert tz-naive Timestamp, use tz_localize to localize')
        if tz is None:
            return SymTimestamp(s.t, tz=None)              # naive UTC wall clock
        return SymTimestamp(s.t, tz=tz)

    def tz_localize(s, tz):
        if tz is None:
            return SymTimestamp(s._wall(), tz=None)         # drops the zone, keeps the local wall clock
        if s.tz is not None:
            raise TypeError('Cannot localize tz-aware Timestamp, use tz_convert for conversions')
        z = _zone(tz)
        # wall -> instant (exact away from the transition hour itself)
        return SymTimestamp(s.t - zone_offset(z, s.t), tz=z)

    def weekday(s):
        return Sym(z3.ToReal((s._wall() / DAY) % 7), True)

    def time(s):
        return SymTime(s._wall() % DAY)

    def date(s):
        return SymDate(s._wall() / DAY)

    def strftime(s, fmt):
        return '<ts>'

    def _cmp(s, o, f, dflt):
        if isinstance(o, SymTimestamp):
            if (s.tz is None) != (o.tz is None):
                raise TypeError('Cannot compare tz-naive and tz-aware timestamps')
            return SymBool(f(s.t, o.t))
        if o is None:
            return dflt
        return NotImplemented

    def __lt__(s, o): return s._cmp(o, lambda a, b: a < b, NotImplemented)
    def __le__(s, o): return s._cmp(o, lambda a, b: a <= b, NotImplemented)
    def __gt__(s, o): return s._cmp(o, lambda a, b: a > b, NotImplemented)
    def __ge__(s, o): return s._cmp(o, lambda a, b: a >= b, NotImplemented)
    def __eq__(s, o): return s._cmp(o, lambda a, b: a == b, False)
    def __ne__(s, o): return s._cmp(o, lambda a, b: a != b, True)
    __hash__ = None

    def __repr__(s):
        return '<ts>'
    __str__ = __repr__


class SymDate:
    """calendar day number (days since EPOCH) of a symbolic instant"""

    def __init__(s, d):
        s.d = d

    def _o(s, o):
        if isinstance(o, SymDate):
            return o.d
        raise TypeError(type(o))

    def __eq__(s, o): return SymBool(s.d == s._o(o)) if isinstance(o, SymDate) else False
    def __ne__(s, o): return SymBool(s.d != s._o(o)) if isinstance(o, SymDate) else True
    def __lt__(s, o): return SymBool(s.d < s._o(o))
    def __le__(s, o): return SymBool(s.d <= s._o(o))
    def __gt__(s, o): return SymBool(s.d > s._o(o))
    def __ge__(s, o): return SymBool(s.d >= s._o(o))
    __hash__ = None


OPEN_TOD = (14 * 60 + 30) * MIN
CLOSE_TOD = 21 * HOUR


def exchange_open_spec(t):
    """the statement's exchange hours, written in integer arithmetic on t: Mon-Fri, 14:30 <= tod < 21:00"""
    return z3.And((t / DAY) % 7 <= 4, t % DAY >= OPEN_TOD, t % DAY < CLOSE_TOD)
