"""Two interpretations of the oracle language.

Oracles are written once, against `L`: in symbolic mode (`Z3Logic`) they build z3 formulas over
the terms a path produced; in concrete mode (`KleeneLogic`) the same code is evaluated on the
floats produced by replaying a solver model against the real, un-shimmed code, in three-valued
logic with a tolerance, so that a counterexample is only reported when it is *definitely*
violated by the float run.
"""
import math
import numpy as np
from fractions import Fraction
import z3
from . import core
from .core import Sym, R, FLOOR, ROUND0, ROUND2
from .symtime import SymTimestamp, from_timestamp


class Z3Logic:
    symbolic = True

    def __init__(self):
        self.axioms = []

    # values
    def num(self, x):
        if isinstance(x, core.Undefined):
            raise core.HarnessError('oracle read an undefined value (%s)' % x.why)
        return R(x)

    def t(self, ts):
        """instant -> integer ns"""
        if isinstance(ts, SymTimestamp):
            return ts.t
        return z3.IntVal(from_timestamp(ts))

    def is_nan(self, x):
        return core.isnan(x)

    def is_undefined(self, x):
        if isinstance(x, core.Undefined):
            return True
        # a concrete float nan/inf produced by the real code (e.g. np.mean of an empty buffer) is undefined too
        try:
            return isinstance(x, (float, np.floating)) and (x != x or x in (math.inf, -math.inf))
        except Exception:
            return False

    def floor(self, x):
        x = self.num(x)
        n = FLOOR(x)
        self.axioms.append(z3.And(z3.ToReal(n) <= x, x < z3.ToReal(n) + 1))
        return z3.ToReal(n)

    def trunc(self, x):
        x = self.num(x)
        return z3.If(x >= 0, self.floor(x), -self.floor(-x))

    def round0(self, x):
        x = self.num(x)
        n = ROUND0(x)
        self.axioms.append(z3.And(2 * (x - z3.ToReal(n)) <= 1, 2 * (z3.ToReal(n) - x) <= 1, ROUND0(-x) == -n))
        return z3.ToReal(n)

    def round2(self, x):
        x = self.num(x)
        r = ROUND2(x)
        self.axioms.append(z3.And(200 * (x - r) <= 1, 200 * (r - x) <= 1))
        return r

    def abs(self, x):
        x = self.num(x)
        return z3.If(x >= 0, x, -x)

    def pow(self, x, c):
        return core.pow_fn(c)(self.num(x))

    def ite(self, c, a, b):
        return z3.If(c, self.num(a), self.num(b))

    def max(self, *xs):
        m = self.num(xs[0])
        for x in xs[1:]:
            x = self.num(x)
            m = z3.If(x > m, x, m)
        return m

    def sum(self, xs):
        s = z3.RealVal(0)
        for x in xs:
            s = s + self.num(x)
        return s

    # atoms
    def eq(self, a, b): return self.num(a) == self.num(b)
    def ne(self, a, b): return self.num(a) != self.num(b)
    def le(self, a, b): return self.num(a) <= self.num(b)
    def lt(self, a, b): return self.num(a) < self.num(b)
    def ge(self, a, b): return self.num(a) >= self.num(b)
    def gt(self, a, b): return self.num(a) > self.num(b)
    def teq(self, a, b): return self.t(a) == self.t(b)
    def teq_offset(self, a, ns, b): return self.t(a) + ns == self.t(b)
    def tle(self, a, b): return self.t(a) <= self.t(b)
    def tlt(self, a, b): return self.t(a) < self.t(b)

    def is_int(self, x):
        if isinstance(x, Sym) and x.is_int:
            return z3.BoolVal(True)
        if isinstance(x, int) and not isinstance(x, bool):
            return z3.BoolVal(True)
        return z3.IsInt(self.num(x))

    def bool(self, b):
        if isinstance(b, core.SymBool):
            return b.e
        if z3.is_expr(b):
            return b
        return z3.BoolVal(bool(b))

    def And(self, *xs): return z3.And(*[self.bool(x) for x in xs]) if xs else z3.BoolVal(True)
    def Or(self, *xs): return z3.Or(*[self.bool(x) for x in xs]) if xs else z3.BoolVal(False)
    def Not(self, x): return z3.Not(self.bool(x))
    def Implies(self, a, b): return z3.Implies(self.bool(a), self.bool(b))
    def Iff(self, a, b): return self.bool(a) == self.bool(b)
    true = z3.BoolVal(True)
    false = z3.BoolVal(False)


class K:
    """Kleene truth value: True / False / None (cannot tell within tolerance)."""
    __slots__ = ('v',)

    def __init__(self, v):
        self.v = v

    def __repr__(self):
        return {True: 'T', False: 'F', None: 'U'}[self.v]

    def __bool__(self):
        raise core.HarnessError('truth value of a Kleene value used in python control flow')


def _k(x):
    if isinstance(x, K):
        return x
    return K(bool(x))


class KleeneLogic:
    symbolic = False
    TOL = 1e-7

    def __init__(self):
        self.axioms = []

    def num(self, x):
        if isinstance(x, Fraction):
            return float(x)
        if hasattr(x, 'item') and not isinstance(x, (int, float)):
            x = x.item()
        if isinstance(x, bool):
            return int(x)
        if not isinstance(x, (int, float)):
            raise core.HarnessError('concrete oracle got %r' % type(x))
        return x

    def t(self, ts):
        return from_timestamp(ts)

    def is_nan(self, x):
        try:
            return x != x
        except Exception:
            return False

    def is_undefined(self, x):
        try:
            return x != x or x in (math.inf, -math.inf)
        except Exception:
            return False

    def floor(self, x): return math.floor(self.num(x))
    def trunc(self, x): return math.trunc(self.num(x))
    def round0(self, x): return round(self.num(x))
    def round2(self, x): return round(self.num(x), 2)
    def abs(self, x): return abs(self.num(x))
    def pow(self, x, c): return self.num(x) ** float(c)

    def ite(self, c, a, b):
        c = _k(c).v
        if c is None:
            # undecidable guard: both branches must agree for the result to be meaningful
            a, b = self.num(a), self.num(b)
            return a if self._close(a, b) else float('nan')
        return self.num(a) if c else self.num(b)

    def max(self, *xs): return max(self.num(x) for x in xs)
    def sum(self, xs): return math.fsum(self.num(x) for x in xs)

    def _tol(self, a, b):
        return self.TOL * (1.0 + max(abs(a), abs(b)))

    def _close(self, a, b):
        return abs(a - b) <= self._tol(a, b)

    def _exact(self, a, b):
        return isinstance(a, int) and isinstance(b, int)

    def eq(self, a, b):
        a, b = self.num(a), self.num(b)
        if a != a or b != b:
            return K(None)
        if a == b:
            return K(True)
        if self._exact(a, b):
            return K(False)
        return K(None) if self._close(a, b) else K(False)

    def ne(self, a, b): return self.Not(self.eq(a, b))

    def lt(self, a, b):
        a, b = self.num(a), self.num(b)
        if a != a or b != b:
            return K(None)
        if a == b:
            return K(False)
        if self._exact(a, b):
            return K(a < b)
        if self._close(a, b):
            return K(None)
        return K(a < b)

    def le(self, a, b):
        a, b = self.num(a), self.num(b)
        if a != a or b != b:
            return K(None)
        if a == b:
            return K(True)
        if self._exact(a, b):
            return K(a < b)
        if self._close(a, b):
            return K(None)
        return K(a < b)

    def gt(self, a, b): return self.lt(b, a)
    def ge(self, a, b): return self.le(b, a)
    def teq(self, a, b): return K(self.t(a) == self.t(b))
    def teq_offset(self, a, ns, b): return K(self.t(a) + ns == self.t(b))
    def tle(self, a, b): return K(self.t(a) <= self.t(b))
    def tlt(self, a, b): return K(self.t(a) < self.t(b))

    def is_int(self, x):
        x = self.num(x)
        return K(isinstance(x, int) or (x == x and float(x).is_integer()))

    def bool(self, b): return _k(b)

    def And(self, *xs):
        vs = [_k(x).v for x in xs]
        if any(v is False for v in vs):
            return K(False)
        if any(v is None for v in vs):
            return K(None)
        return K(True)

    def Or(self, *xs):
        vs = [_k(x).v for x in xs]
        if any(v is True for v in vs):
            return K(True)
        if any(v is None for v in vs):
            return K(None)
        return K(False)

    def Not(self, x):
        v = _k(x).v
        return K(None if v is None else (not v))

    def Implies(self, a, b): return self.Or(self.Not(a), b)

    def Iff(self, a, b):
        a, b = _k(a).v, _k(b).v
        if a is None or b is None:
            return K(None)
        return K(a == b)
    true = K(True)
    false = K(False)


class SymMaker:
    """declares the symbolic inputs of a harness"""
    symbolic = True

    def __init__(self):
        self.decl = {}       # name -> kind

    def real(self, name):
        self.decl[name] = 'real'
        return Sym(z3.Real(name))

    def int(self, name):
        self.decl[name] = 'int'
        return Sym(z3.ToReal(z3.Int(name)), True)

    def time(self, name, tz='UTC'):
        self.decl[name] = 'time'
        return SymTimestamp(z3.Int(name), tz=tz)

    def flag(self, name):
        """an arbitrary boolean; branching on it explores both values"""
        self.decl[name] = 'bool'
        return core.SymBool(z3.Bool(name))

    def const(self, name):
        k = self.decl[name]
        return z3.Bool(name) if k == 'bool' else (z3.Real(name) if k == 'real' else z3.Int(name))


class ConcreteMaker:
    symbolic = False

    def __init__(self, values):
        self.values = values
        self.decl = {}

    def real(self, name):
        self.decl[name] = 'real'
        return float(self.values[name])

    def int(self, name):
        self.decl[name] = 'int'
        return int(self.values[name])

    def time(self, name, tz='UTC'):
        from .symtime import to_timestamp
        self.decl[name] = 'time'
        return to_timestamp(int(self.values[name]), tz)

    def flag(self, name):
        self.decl[name] = 'bool'
        return bool(self.values[name])
