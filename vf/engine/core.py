"""z3-backed proxy values and the path explorer.

The real qstrader functions are called with `Sym` arguments (a z3 Real term; integers are
ToReal(Int)).  A comparison yields `SymBool`; when Python needs its truth value the explorer
asks z3 which outcomes are feasible under the current path condition, follows one and
schedules the other.  Paths are enumerated depth first by re-executing the program with a
recorded decision prefix, so every path is a genuine execution of the real code.
"""
import sys, dis, math, time, builtins
from fractions import Fraction
import z3

try:
    import numpy as _np
except ImportError:  # pragma: no cover
    _np = None


class PathAbort(BaseException):
    """The path cannot be continued symbolically (concretisation) -> whole check inconclusive."""
    kind = 'inconclusive'


class OutsideClaim(PathAbort):
    """The path leaves the stated bound/assumption (e.g. log of a non-positive equity)."""
    kind = 'outside'


class HarnessError(Exception):
    pass


EX = None          # current explorer (one per process at a time)


def set_explorer(ex):
    global EX
    EX = ex


# ----------------------------------------------------------------------------------------
# uninterpreted integer-part functions (shared by implementation and reference => congruence)
FLOOR = z3.Function('floor_', z3.RealSort(), z3.IntSort())
ROUND0 = z3.Function('round0_', z3.RealSort(), z3.IntSort())
ROUND2 = z3.Function('round2_', z3.RealSort(), z3.RealSort())
_POW = {}


SQRT = z3.Function('sqrt_', z3.RealSort(), z3.RealSort())
_ROUNDN = {}


def round_fn(nd):
    if nd not in _ROUNDN:
        _ROUNDN[nd] = z3.Function('roundn%d_' % nd, z3.RealSort(), z3.RealSort())
    return _ROUNDN[nd]


def pow_fn(c):
    c = float('%.12g' % float(c))      # 1/(n/252.) and 252./n differ in the last ulp: same function
    if c not in _POW:
        _POW[c] = z3.Function('pow_%s' % repr(c).replace('.', 'p').replace('-', 'm'), z3.RealSort(), z3.RealSort())
    return _POW[c]


def Q(x):
    """exact z3 rational of a python number"""
    if isinstance(x, bool):
        raise TypeError('bool')
    if isinstance(x, int):
        return z3.RealVal(x)
    if isinstance(x, Fraction):
        return z3.Q(x.numerator, x.denominator)
    if isinstance(x, float):
        if x != x or x in (math.inf, -math.inf):
            raise TypeError('nan/inf')
        f = Fraction(x)
        return z3.Q(f.numerator, f.denominator)
    raise TypeError(type(x))


def R(x):
    """z3 Real term of a proxy or a finite python/numpy number; TypeError otherwise."""
    if isinstance(x, Sym):
        return x.e
    if isinstance(x, (int, float, Fraction)) and not isinstance(x, bool):
        return Q(x)
    if isinstance(x, bool):
        return z3.RealVal(int(x))
    if _np is not None:
        if isinstance(x, _np.integer):
            return z3.RealVal(int(x))
        if isinstance(x, _np.floating):
            return Q(float(x))
        if isinstance(x, _np.bool_):
            return z3.RealVal(int(x))
    if z3.is_expr(x):
        return x
    raise TypeError(type(x))


def isnan(x):
    return isinstance(x, float) and x != x or (_np is not None and isinstance(x, _np.floating) and x != x)


class SymBool:
    __slots__ = ('e',)

    def __init__(self, e):
        self.e = e

    def __bool__(self):
        return EX.decide(self.e)

    def __invert__(self):
        return SymBool(z3.Not(self.e))

    def __and__(self, o):
        return SymBool(z3.And(self.e, o.e if isinstance(o, SymBool) else z3.BoolVal(bool(o))))

    def __or__(self, o):
        return SymBool(z3.Or(self.e, o.e if isinstance(o, SymBool) else z3.BoolVal(bool(o))))
    __rand__ = __and__
    __ror__ = __or__

    def __repr__(self):
        return '<symbool>'


class Undefined:
    """Result of x/0 or a statistic of an empty selection: numpy floats give inf/nan without
    raising.  Harmless while unused; any use ends the path as 'result undefined'."""

    def __init__(self, why):
        self.why = why

    def _bad(self, *a, **k):
        raise UndefinedUse(self.why)

    def _prop(self, *a, **k):          # arithmetic propagates like NaN
        return self
    __add__ = __radd__ = __sub__ = __rsub__ = __mul__ = __rmul__ = __truediv__ = __rtruediv__ = _prop
    __neg__ = __abs__ = __pow__ = sqrt = _prop
    __lt__ = __le__ = __gt__ = __ge__ = __eq__ = __ne__ = __bool__ = _bad
    __float__ = __round__ = _bad
    __hash__ = None

    def __repr__(self):
        return '<undefined:%s>' % self.why


class UndefinedUse(PathAbort):
    kind = 'undefined'


def _is_intlike(o):
    return (isinstance(o, int) and not isinstance(o, bool)) or getattr(o, 'is_int', False) or \
        (_np is not None and isinstance(o, _np.integer))


class Sym:
    __array_priority__ = 1000
    __slots__ = ('e', 'is_int')

    def __init__(self, e, is_int=False):
        self.e = e
        self.is_int = is_int

    # -- arithmetic
    def _b(self, o, f, rev=False, keepint=True):
        if isnan(o):
            return float('nan')
        if isinstance(o, Undefined):
            return o
        try:
            oe = R(o)
        except TypeError:
            return NotImplemented
        return Sym(f(oe, self.e) if rev else f(self.e, oe), keepint and self.is_int and _is_intlike(o))

    def __add__(s, o): return s._b(o, lambda a, b: a + b)
    def __radd__(s, o): return s._b(o, lambda a, b: a + b, True)
    def __sub__(s, o): return s._b(o, lambda a, b: a - b)
    def __rsub__(s, o): return s._b(o, lambda a, b: a - b, True)
    def __mul__(s, o): return s._b(o, lambda a, b: a * b)
    def __rmul__(s, o): return s._b(o, lambda a, b: a * b, True)

    def __truediv__(s, o):
        if isnan(o):
            return float('nan')
        if isinstance(o, Undefined):
            return o
        if isinstance(o, (int, float)) and not isinstance(o, bool) and o == 0:
            return Undefined('x/0')
        if _np is not None and isinstance(o, (_np.integer, _np.floating)) and o == 0:
            return Undefined('x/0')
        if isinstance(o, Sym) and (o == 0):
            return Undefined('x/0 (symbolic zero)')
        return s._b(o, lambda a, b: a / b, keepint=False)

    def __rtruediv__(s, o):
        if isnan(o):
            return float('nan')
        if s == 0:
            return Undefined('x/0 (symbolic zero)')
        return s._b(o, lambda a, b: a / b, True, keepint=False)

    def __neg__(s): return Sym(-s.e, s.is_int)
    def __pos__(s): return s
    def __abs__(s): return s if s >= 0 else -s

    def __pow__(s, c):
        if isinstance(c, Sym):
            raise PathAbort('symbolic exponent')
        c = float(c)
        if c == 1.0:
            return s
        if c == 2.0:
            return Sym(s.e * s.e, s.is_int)
        if c == 0.5:
            return s.sqrt()
        return Sym(pow_fn(c)(s.e))

    # -- comparisons
    def _c(s, o, f, nanval):
        if isnan(o):
            return nanval
        if isinstance(o, Undefined):
            return o._bad()
        try:
            return SymBool(f(s.e, R(o)))
        except TypeError:
            return NotImplemented

    def __lt__(s, o): return s._c(o, lambda a, b: a < b, False)
    def __le__(s, o): return s._c(o, lambda a, b: a <= b, False)
    def __gt__(s, o): return s._c(o, lambda a, b: a > b, False)
    def __ge__(s, o): return s._c(o, lambda a, b: a >= b, False)

    def __eq__(s, o):
        r = s._c(o, lambda a, b: a == b, False)
        return False if r is NotImplemented else r

    def __ne__(s, o):
        r = s._c(o, lambda a, b: a != b, True)
        return True if r is NotImplemented else r
    __hash__ = None

    def __bool__(s):
        return EX.decide(s.e != 0)

    # -- integer parts
    def __floor__(s):
        if s.is_int:
            return s
        n = FLOOR(s.e)
        EX.assume(z3.And(z3.ToReal(n) <= s.e, s.e < z3.ToReal(n) + 1), tag=('floor', s.e, n))
        return Sym(z3.ToReal(n), True)

    def __ceil__(s):
        return -((-s).__floor__())

    def __trunc__(s):
        if s.is_int:
            return s
        return s.__floor__() if s >= 0 else s.__ceil__()

    def __round__(s, nd=None):
        if s.is_int and not (nd and nd < 0):
            return s
        if not nd:
            n = ROUND0(s.e)
            EX.assume(z3.And(2 * (s.e - z3.ToReal(n)) <= 1, 2 * (z3.ToReal(n) - s.e) <= 1,
                             ROUND0(-s.e) == -n), tag=('round0', s.e, n))
            return Sym(z3.ToReal(n), True)
        if nd != 2:
            if not isinstance(nd, int) or nd < 0 or nd > 9:
                raise PathAbort('round(x, %r) not modelled' % (nd,))
            f = round_fn(nd)
            r = f(s.e)
            k = 2 * 10 ** nd
            EX.assume(z3.And(k * (s.e - r) <= 1, k * (r - s.e) <= 1), tag=('roundn', s.e, r, nd))
            return Sym(r)
        r = ROUND2(s.e)
        EX.assume(z3.And(200 * (s.e - r) <= 1, 200 * (r - s.e) <= 1), tag=('round2', s.e, r))
        return Sym(r)

    def sqrt(s):
        r = SQRT(s.e)
        EX.assume(z3.And(r >= 0, r * r == s.e), tag=('sqrt', s.e, r))
        return Sym(r)

    def log(s):
        return tolog(s)

    def conjugate(s):
        return s

    # -- concretisation guards
    def __int__(s):
        raise PathAbort('int() on a symbolic value')

    def __index__(s):
        raise PathAbort('index() on a symbolic value')

    def __float__(s):
        f = sys._getframe(1)
        ins = [i for i in dis.get_instructions(f.f_code) if i.offset == f.f_lasti]
        if ins and ins[0].opname == 'BINARY_OP' and ins[0].argrepr in ('%', '%='):
            return 0.0
        if ins and ins[0].opname in ('FORMAT_VALUE', 'FORMAT_WITH_SPEC', 'FORMAT_SIMPLE'):
            return 0.0
        raise PathAbort('float() on a symbolic value at %s:%d' % (f.f_code.co_filename, f.f_lineno))

    def __repr__(s):
        return '<sym>'
    __str__ = __repr__

    def __format__(s, spec):
        return '<sym>'


class LogSym:
    """log of a positive proxy kept symbolically: log a + log b = log(ab), exp(log a) = a."""

    def __init__(self, arg):
        self.arg = arg

    def __add__(s, o):
        if isinstance(o, LogSym):
            return LogSym(s.arg * o.arg)
        if isinstance(o, (int, float)) and o == 0:
            return s
        return NotImplemented
    __radd__ = __add__

    def exp(s):
        return s.arg


def tolog(v):
    if isinstance(v, LogSym):
        return v
    if isinstance(v, Sym):
        if not (v > 0):
            raise OutsideClaim('log of a non-positive value')
        return LogSym(v)
    if isinstance(v, Undefined):
        v._bad()
    if isnan(v):
        return v
    if v <= 0:
        raise OutsideClaim('log of a non-positive value')
    return LogSym(Sym(R(v)))


def toexp(v):
    if isinstance(v, LogSym):
        return v.arg
    if isinstance(v, (int, float)) and v == 0:
        return 1.0
    return math.exp(v)


# ----------------------------------------------------------------------------------------
_VARCACHE = {}


def free_vars(e):
    """ids of the uninterpreted constants of a term (cached by AST object)."""
    k = e.get_id()
    c = _VARCACHE.get(k)
    if c is not None and c[0].eq(e):
        return c[1]
    out = set()
    stack = [e]
    seen = set()
    while stack:
        x = stack.pop()
        i = x.get_id()
        if i in seen:
            continue
        seen.add(i)
        if z3.is_const(x):
            if x.decl().kind() == z3.Z3_OP_UNINTERPRETED:
                out.add(i)
        else:
            stack.extend(x.children())
    fs = frozenset(out)
    _VARCACHE[k] = (e, fs)
    return fs


def var_names(e):
    out = set()
    stack = [e]
    seen = set()
    while stack:
        x = stack.pop()
        i = x.get_id()
        if i in seen:
            continue
        seen.add(i)
        if z3.is_const(x):
            if x.decl().kind() == z3.Z3_OP_UNINTERPRETED:
                out.add(x.decl().name())
        else:
            stack.extend(x.children())
    return out


def timed_check(solver, timeout_ms, *assumptions):
    """solver.check() with z3's soft timeout plus a hard interrupt (nlsat can overrun the soft one by minutes)"""
    import threading
    solver.set('timeout', int(timeout_ms))
    ctx = solver.ctx
    fired = []

    def kill():
        fired.append(1)
        ctx.interrupt()
    t = threading.Timer(timeout_ms / 1000.0 + 2.0, kill)
    t.daemon = True
    t.start()
    try:
        r = solver.check(*assumptions)
    except z3.Z3Exception:
        r = z3.unknown
    finally:
        t.cancel()
    return r


def _has_uf_or_int(fs):
    seen = set()
    stack = list(fs)
    while stack:
        x = stack.pop()
        i = x.get_id()
        if i in seen:
            continue
        seen.add(i)
        if z3.is_app(x):
            d = x.decl()
            if d.kind() == z3.Z3_OP_UNINTERPRETED and (x.num_args() > 0 or x.sort().kind() != z3.Z3_REAL_SORT) and not z3.is_bool(x):
                return True
            if d.kind() in (z3.Z3_OP_TO_REAL, z3.Z3_OP_TO_INT, z3.Z3_OP_IDIV, z3.Z3_OP_MOD):
                return True
            stack.extend(x.children())
    return False


class _NoRelax(Exception):
    pass


def relax_to_reals(fs):
    """Over-approximation of a conjunction in pure real arithmetic: every application of an uninterpreted function and
    every integer constant becomes a fresh real constant (integrality and function congruence are dropped).  If the
    relaxation is unsat so is the original; a sat answer means nothing."""
    memo = {}
    fresh = {}

    def var(key, e):
        if key not in fresh:
            fresh[key] = z3.Real('rx!%d' % len(fresh))
        return fresh[key]

    def go(e):
        i = e.get_id()
        if i in memo:
            return memo[i]
        k = e.decl().kind()
        if z3.is_int_value(e):
            r = z3.RealVal(e.as_long())
        elif z3.is_rational_value(e) or z3.is_true(e) or z3.is_false(e):
            r = e
        elif k == z3.Z3_OP_UNINTERPRETED:
            if z3.is_bool(e) and e.num_args() == 0:
                r = e
            elif e.num_args() == 0 and e.sort().kind() == z3.Z3_REAL_SORT:
                r = e
            else:
                r = var(i, e)           # UF application or integer constant
        elif k in (z3.Z3_OP_TO_REAL,):
            r = go(e.arg(0))
        elif k in (z3.Z3_OP_IDIV, z3.Z3_OP_MOD, z3.Z3_OP_REM, z3.Z3_OP_TO_INT, z3.Z3_OP_IS_INT):
            raise _NoRelax()
        else:
            ch = [go(c) for c in e.children()]
            if k == z3.Z3_OP_ADD:
                r = ch[0]
                for c in ch[1:]:
                    r = r + c
            elif k == z3.Z3_OP_SUB:
                r = ch[0]
                for c in ch[1:]:
                    r = r - c
            elif k == z3.Z3_OP_MUL:
                r = ch[0]
                for c in ch[1:]:
                    r = r * c
            elif k == z3.Z3_OP_UMINUS:
                r = -ch[0]
            elif k == z3.Z3_OP_DIV:
                r = ch[0] / ch[1]
            elif k == z3.Z3_OP_LE:
                r = ch[0] <= ch[1]
            elif k == z3.Z3_OP_LT:
                r = ch[0] < ch[1]
            elif k == z3.Z3_OP_GE:
                r = ch[0] >= ch[1]
            elif k == z3.Z3_OP_GT:
                r = ch[0] > ch[1]
            elif k == z3.Z3_OP_EQ:
                r = ch[0] == ch[1]
            elif k == z3.Z3_OP_DISTINCT:
                r = z3.Distinct(*ch)
            elif k == z3.Z3_OP_AND:
                r = z3.And(*ch)
            elif k == z3.Z3_OP_OR:
                r = z3.Or(*ch)
            elif k == z3.Z3_OP_NOT:
                r = z3.Not(ch[0])
            elif k == z3.Z3_OP_IMPLIES:
                r = z3.Implies(ch[0], ch[1])
            elif k == z3.Z3_OP_ITE:
                r = z3.If(ch[0], ch[1], ch[2])
            elif k == z3.Z3_OP_XOR:
                r = z3.Xor(ch[0], ch[1])
            else:
                raise _NoRelax()
        memo[i] = r
        return r
    return [go(f) for f in fs]


def robust_check(assertions, total_ms, stats=None):
    """Decide sat/unsat of a conjunction with a ladder of strategies.  z3's nonlinear reasoning is sensitive to
    heuristics (the same goal can take 0.1 s or minutes), so a short default attempt is followed by the nlsat
    tactic (pure real goals), reseeded attempts and an attempt in a fresh context, until the total budget is used.
    Returns (result, strategy)."""
    t_end = time.time() + total_ms / 1000.0
    assertions = list(assertions)

    def left():
        return max(0.0, t_end - time.time()) * 1000.0
    plan = [('default', 4000)]
    pure = not _has_uf_or_int(assertions)
    relaxed = None
    if pure:
        plan.append(('nlsat', 15000))
    else:
        try:
            relaxed = relax_to_reals(assertions)
            plan.append(('relaxed-nlsat', 12000))
        except _NoRelax:
            relaxed = None
    plan += [('seed1', 8000), ('freshctx', 15000), ('seed2', 15000)]
    if pure:
        plan.append(('nlsat', 60000))
    elif relaxed is not None:
        plan.append(('relaxed-nlsat', 40000))
    plan.append(('default', 10 ** 9))
    for name, ms in plan:
        ms = min(ms, left())
        if ms < 200:
            break
        try:
            if name == 'nlsat':
                s = z3.Then('simplify', 'purify-arith', 'qfnra-nlsat').solver()
                s.add(*assertions)
            elif name == 'relaxed-nlsat':
                s = z3.Then('simplify', 'purify-arith', 'qfnra-nlsat').solver()
                s.add(*relaxed)
            elif name == 'freshctx':
                # same goal, re-parsed from its SMT-LIB text: different term ordering, different heuristic choices
                s0 = z3.Solver()
                s0.add(*assertions)
                s = z3.Solver()
                s.add(z3.parse_smt2_string(s0.to_smt2()))
            else:
                s = z3.Solver()
                if name.startswith('seed'):
                    s.set('random_seed', int(name[4:]) * 7919)
                    s.set('smt.arith.random_initial_value', True)
                s.add(*assertions)
            r = timed_check(s, ms)
        except z3.Z3Exception:
            r = z3.unknown
        if stats is not None:
            stats[name] = stats.get(name, 0) + 1
        if name == 'relaxed-nlsat' and r != z3.unsat:
            continue                    # only `unsat` of the over-approximation carries over
        if r != z3.unknown:
            return r, name
    return z3.unknown, 'none'


class Explorer:
    def __init__(self, base=(), timeout_ms=10000):
        self.base = list(base)
        self.tmo = timeout_ms
        self.queries = 0
        self.unknown = 0
        self.qtime = 0.0
        self.decisions = 0
        self.frozen = False
        self.reset([])

    def reset(self, prefix):
        self.prefix = list(prefix)
        self.trace = []
        self.pc = []           # every conjunct of the path condition, in program order
        self.tags = []         # parallel to pc: None for a branch decision, tuple for an axiom
        self.pending = []
        self.names = {}
        self.marks = []        # user marks: (label, len(pc))
        self._known_ids = {}
        self._known_n = 0
        self.unknown_on_path = 0

    # fresh, deterministic-per-path variable
    def newvar(self, tag, sort):
        k = self.names.get(tag, 0)
        self.names[tag] = k + 1
        return z3.Const('%s!%d' % (tag, k), sort)

    def assume(self, c, tag=('axiom',)):
        self.pc.append(c)
        self.tags.append(tag)

    def mark(self, label):
        self.marks.append((label, len(self.pc)))

    def _slice(self, cond):
        need = set(free_vars(cond))
        chosen = []
        rest = [(c, free_vars(c)) for c in self.base + self.pc]
        changed = True
        while changed:
            changed = False
            nxt = []
            for c, vs in rest:
                if vs & need:
                    chosen.append(c)
                    need |= vs
                    changed = True
                else:
                    nxt.append((c, vs))
            rest = nxt
        return chosen

    def _check(self, cond):
        cons = self._slice(cond)
        self.queries += 1
        t = time.time()
        s = z3.Solver()
        s.add(*cons)
        s.add(cond)
        r = timed_check(s, self.tmo)
        self.qtime += time.time() - t
        if r == z3.unknown:
            self.unknown += 1
            self.unknown_on_path += 1
        return r

    def decide(self, cond):
        if self.frozen:
            raise HarnessError('branch on a symbolic value inside an oracle')
        try:
            cond = z3.simplify(cond)
        except z3.Z3Exception:          # a late interrupt of an earlier, already finished query: harmless, once more
            cond = z3.simplify(cond)
        if z3.is_true(cond):
            return True
        if z3.is_false(cond):
            return False
        i = len(self.trace)
        # syntactic fast path (applies identically when a prefix is replayed): the condition or its negation is
        # already a conjunct of the path condition
        known = self._known()
        if cond.get_id() in known:
            return True
        if z3.simplify(z3.Not(cond)).get_id() in known:
            return False
        if i < len(self.prefix):
            b = self.prefix[i]
        else:
            rt = self._check(cond)
            if rt == z3.unsat:
                b = False
            else:
                rf = self._check(z3.Not(cond))
                b = True
                if rf != z3.unsat:
                    self.pending.append(self.trace + [False])
        self.trace.append(b)
        self.decisions += 1
        self.pc.append(cond if b else z3.Not(cond))
        self.tags.append(None)
        return b

    def _known(self):
        n = len(self.pc)
        if self._known_n != n:
            for c in self.pc[self._known_n:]:
                self._known_ids[c.get_id()] = c
            self._known_n = n
        return self._known_ids

    def run_path(self, prefix, fn):
        """Execute fn once along `prefix` (then first-feasible choices).  Returns
        (kind, value, new_pending_prefixes)."""
        self.reset(prefix)
        try:
            res = ('ok', fn())
        except PathAbort as e:
            res = (e.kind, str(e))
        except HarnessError:
            raise
        except Exception as e:           # the real code raised
            res = ('raise', e)
        return res[0], res[1], list(self.pending)


def sym_real(name):
    return Sym(z3.Real(name))


def sym_int(name):
    return Sym(z3.ToReal(z3.Int(name)), True)
