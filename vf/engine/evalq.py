"""Exact evaluation of z3 terms over Fractions (the inputs are the exact rational values of the
floats handed to the real code), with the uninterpreted integer-part functions given their
intended meaning.  Used to compare a symbolic path result with the real float run."""
import math
from fractions import Fraction
import z3


class EvalError(Exception):
    pass


def _round_half_even(x):
    return Fraction(round(x))       # Fraction.__round__ is half-even, like float round()


def evaluate(e, env, memo=None):
    """env: name -> Fraction | bool.  Returns Fraction or bool."""
    if memo is None:
        memo = {}
    try:
        return _ev(e, env, memo)
    except (OverflowError, ZeroDivisionError, ValueError) as ex:
        raise EvalError('numeric: %s' % ex)


def _ev(e, env, memo):
    i = e.get_id()
    if i in memo:
        return memo[i]
    r = _ev1(e, env, memo)
    memo[i] = r
    return r


def _ev1(e, env, memo):
    k = e.decl().kind()
    ch = e.children()
    if z3.is_rational_value(e) or z3.is_int_value(e):
        return Fraction(e.numerator_as_long(), e.denominator_as_long()) if z3.is_rational_value(e) else Fraction(e.as_long())
    if z3.is_algebraic_value(e):
        return Fraction(e.approx(30).as_fraction())
    if k == z3.Z3_OP_TRUE:
        return True
    if k == z3.Z3_OP_FALSE:
        return False
    if k == z3.Z3_OP_UNINTERPRETED:
        name = e.decl().name()
        if not ch:
            if name not in env:
                raise EvalError('no value for %s' % name)
            return env[name]
        a = _ev(ch[0], env, memo)
        if name == 'floor_':
            return Fraction(math.floor(a))
        if name == 'round0_':
            return _round_half_even(a)
        if name == 'round2_':
            return _round_half_even(a * 100) / 100
        if name.startswith('roundn') and name.endswith('_'):
            nd = int(name[6:-1])
            return _round_half_even(a * 10 ** nd) / 10 ** nd
        if name == 'sqrt_':
            if a < 0:
                raise EvalError('sqrt of negative')
            return Fraction(math.sqrt(float(a)))
        if name.startswith('pow_'):
            c = float(name[4:].replace('p', '.').replace('m', '-'))
            if a < 0:
                raise EvalError('pow of negative')
            return Fraction(float(a) ** c)
        raise EvalError('unknown function %s' % name)
    if k == z3.Z3_OP_ADD:
        return sum((_ev(c, env, memo) for c in ch), Fraction(0))
    if k == z3.Z3_OP_SUB:
        r = _ev(ch[0], env, memo)
        for c in ch[1:]:
            r = r - _ev(c, env, memo)
        return r
    if k == z3.Z3_OP_MUL:
        r = Fraction(1)
        for c in ch:
            r = r * _ev(c, env, memo)
        return r
    if k == z3.Z3_OP_UMINUS:
        return -_ev(ch[0], env, memo)
    if k == z3.Z3_OP_DIV:
        a, b = _ev(ch[0], env, memo), _ev(ch[1], env, memo)
        if b == 0:
            raise EvalError('division by zero')
        return a / b
    if k == z3.Z3_OP_IDIV:
        a, b = _ev(ch[0], env, memo), _ev(ch[1], env, memo)
        if b == 0:
            raise EvalError('division by zero')
        q = math.floor(a / b) if b > 0 else math.ceil(a / b)      # SMT-LIB: a = b*q + r, 0 <= r < |b|
        return Fraction(q)
    if k == z3.Z3_OP_MOD:
        a, b = _ev(ch[0], env, memo), _ev(ch[1], env, memo)
        if b == 0:
            raise EvalError('mod by zero')
        q = math.floor(a / b) if b > 0 else math.ceil(a / b)
        return a - b * q
    if k == z3.Z3_OP_TO_REAL:
        return _ev(ch[0], env, memo)
    if k == z3.Z3_OP_TO_INT:
        return Fraction(math.floor(_ev(ch[0], env, memo)))
    if k == z3.Z3_OP_POWER:
        a, b = _ev(ch[0], env, memo), _ev(ch[1], env, memo)
        if b.denominator == 1:
            return a ** int(b)
        return Fraction(float(a) ** float(b))
    if k == z3.Z3_OP_ITE:
        return _ev(ch[1], env, memo) if _ev(ch[0], env, memo) else _ev(ch[2], env, memo)
    if k == z3.Z3_OP_LE:
        return _ev(ch[0], env, memo) <= _ev(ch[1], env, memo)
    if k == z3.Z3_OP_LT:
        return _ev(ch[0], env, memo) < _ev(ch[1], env, memo)
    if k == z3.Z3_OP_GE:
        return _ev(ch[0], env, memo) >= _ev(ch[1], env, memo)
    if k == z3.Z3_OP_GT:
        return _ev(ch[0], env, memo) > _ev(ch[1], env, memo)
    if k == z3.Z3_OP_EQ:
        return _ev(ch[0], env, memo) == _ev(ch[1], env, memo)
    if k == z3.Z3_OP_DISTINCT:
        vs = [_ev(c, env, memo) for c in ch]
        return len(set(vs)) == len(vs)
    if k == z3.Z3_OP_AND:
        return all(_ev(c, env, memo) for c in ch)
    if k == z3.Z3_OP_OR:
        return any(_ev(c, env, memo) for c in ch)
    if k == z3.Z3_OP_NOT:
        return not _ev(ch[0], env, memo)
    if k == z3.Z3_OP_IMPLIES:
        return (not _ev(ch[0], env, memo)) or _ev(ch[1], env, memo)
    if k == z3.Z3_OP_XOR:
        return _ev(ch[0], env, memo) != _ev(ch[1], env, memo)
    if k == z3.Z3_OP_IS_INT:
        return _ev(ch[0], env, memo).denominator == 1
    raise EvalError('unsupported z3 op %s in %s' % (e.decl().name(), str(e)[:80]))


def model_value(m, const):
    v = m.eval(const, model_completion=True)
    if z3.is_bool(v):
        return z3.is_true(v)
    if z3.is_int_value(v):
        return Fraction(v.as_long())
    if z3.is_rational_value(v):
        return Fraction(v.numerator_as_long(), v.denominator_as_long())
    if z3.is_algebraic_value(v):
        return Fraction(v.approx(30).as_fraction())
    raise EvalError('model value %s' % v)
