"""Module-level shims: rebinding of names (`np`, `int`, `floor`, `datetime`, `set`, `uuid`) inside
the imported qstrader modules.  Each shim falls through to the genuine function when no proxy is
involved, so concrete behaviour is unchanged.  Nothing in /repo is edited."""
import builtins, datetime as _dt, importlib, math, pkgutil, sys
from fractions import Fraction
import numpy as _np
import pandas as _pd
import z3
from . import core
from .core import Sym, SymBool, Undefined, LogSym, tolog, toexp, PathAbort, isnan

ATOL_1E8 = Fraction(1e-08)


def _is_proxy(x):
    return isinstance(x, (Sym, Undefined, LogSym))


def _np_isnan(x):
    if isinstance(x, Sym):
        return False
    if isinstance(x, Undefined):
        return x._bad()
    return _np.isnan(x)


def _np_floor(x):
    return x.__floor__() if isinstance(x, Sym) else _np.floor(x)


def _np_ceil(x):
    return x.__ceil__() if isinstance(x, Sym) else _np.ceil(x)


def _math_floor(x):
    return x.__floor__() if isinstance(x, Sym) else math.floor(x)


def _int(x=0, *a):
    if isinstance(x, Sym):
        return x.__trunc__()
    return builtins.int(x, *a)


def _np_copysign(a, b):
    if isinstance(b, Sym) or isinstance(a, Sym):
        return abs(a) * 1.0 if b >= 0 else -abs(a) * 1.0
    return _np.copysign(a, b)


def _np_abs(x):
    if isinstance(x, Sym):
        return abs(x)
    return _np.abs(x)


def _np_rint(x, *a, **k):
    # round-to-nearest (ties are over-approximated by the ROUND0 axioms: any integer within 1/2; every counterexample is
    # replayed on the float code before it is reported)
    if isinstance(x, Sym):
        return x.__round__() * 1.0
    return _np.rint(x, *a, **k)


def _np_round(x, decimals=0, *a, **k):
    if isinstance(x, Sym):
        return x.__round__(decimals) * 1.0 if decimals else x.__round__() * 1.0
    return _np.round(x, decimals, *a, **k)


def _np_trunc(x, *a, **k):
    if isinstance(x, Sym):
        return x.__trunc__() * 1.0
    return _np.trunc(x, *a, **k)


def _np_isclose(a, b, rtol=1e-05, atol=1e-08):
    if isinstance(a, Sym) or isinstance(b, Sym):
        d = a - b
        d = d if d >= 0 else -d
        bb = b if b >= 0 else -b
        return bool(d <= Fraction(atol) + Fraction(rtol) * bb)
    return _np.isclose(a, b, rtol=rtol, atol=atol)


def _objser(x):
    return isinstance(x, _pd.Series) and x.dtype == object


def _np_zeros(n, *a, **k):
    if a or k:
        return _np.zeros(n, *a, **k)
    if core.EX is not None and getattr(core.EX, 'symbolic_arrays', False):
        arr = _np.empty(n, dtype=object)
        arr[:] = 0
        return arr
    return _np.zeros(n)


def _np_log(x):
    if _objser(x):
        return x.map(tolog)
    if isinstance(x, Sym):
        return tolog(x)
    return _np.log(x)


def _np_exp(x):
    if _objser(x):
        return x.map(toexp)
    if isinstance(x, LogSym):
        return x.arg
    return _np.exp(x)


def _np_mean(x, *a, **k):
    if _objser(x):
        arr = x.to_numpy()
        if len(arr) == 0:
            return Undefined('mean of an empty selection')
        return _np.mean(arr, *a, **k)
    return _np.mean(x, *a, **k)


def _np_std(x, *a, **k):
    if _objser(x):
        arr = x.to_numpy()
        if len(arr) == 0:
            return Undefined('std of an empty selection')
        return _np.std(arr, *a, **k)
    return _np.std(x, *a, **k)


def _np_sqrt(x):
    if isinstance(x, Sym):
        return x.sqrt()
    return _np.sqrt(x)


class NPProxy:
    """stands in for the module-level name `np`; everything not overridden is numpy's."""
    isnan = staticmethod(_np_isnan)
    floor = staticmethod(_np_floor)
    ceil = staticmethod(_np_ceil)
    copysign = staticmethod(_np_copysign)
    abs = staticmethod(_np_abs)
    isclose = staticmethod(_np_isclose)
    rint = staticmethod(_np_rint)
    round = staticmethod(_np_round)
    around = staticmethod(_np_round)
    trunc = staticmethod(_np_trunc)
    fix = staticmethod(_np_trunc)
    zeros = staticmethod(_np_zeros)
    log = staticmethod(_np_log)
    exp = staticmethod(_np_exp)
    mean = staticmethod(_np_mean)
    std = staticmethod(_np_std)
    sqrt = staticmethod(_np_sqrt)

    def __getattr__(self, k):
        return getattr(_np, k)


class _DTdatetime:
    """datetime.datetime stand-in used only by Portfolio.transact_asset's description string."""

    @staticmethod
    def strftime(dt, fmt):
        if isinstance(dt, _dt.datetime):
            return _dt.datetime.strftime(dt, fmt)
        return dt.strftime(fmt)

    def __getattr__(self, k):
        return getattr(_dt.datetime, k)


class DTProxy:
    datetime = _DTdatetime()

    def __getattr__(self, k):
        return getattr(_dt, k)


class PDProxy:
    """stands in for the module-level name `pd`: pd.Timestamp(x) of a symbolic instant is that instant"""

    @staticmethod
    def Timestamp(x=None, *a, **k):
        from .symtime import SymTimestamp
        if isinstance(x, SymTimestamp):
            tz = k.get('tz', None)
            return x if tz is None else (x.tz_localize(tz) if x.tz is None else x.tz_convert(tz))
        return _pd.Timestamp(x, *a, **k) if x is not None else _pd.Timestamp(*a, **k)

    def __getattr__(self, k):
        return getattr(_pd, k)


_SAVED = []


def _qstrader_modules():
    import qstrader
    mods = []
    for m in pkgutil.walk_packages(qstrader.__path__, 'qstrader.'):
        try:
            mods.append(importlib.import_module(m.name))
        except Exception:      # optional plotting modules etc.
            pass
    return mods


def quiet():
    """console/log formatting is not the subject of any property"""
    from qstrader import settings
    settings.PRINT_EVENTS = False
    import logging
    logging.disable(logging.CRITICAL)


def install():
    """rebind module-level names; idempotent."""
    if _SAVED:
        return
    quiet()
    npx = NPProxy()
    pdx = PDProxy()
    for m in _qstrader_modules():
        d = m.__dict__
        if d.get('np') is _np:
            _SAVED.append((m, 'np', _np))
            m.np = npx
        if m.__name__.startswith(('qstrader.portcon', 'qstrader.broker', 'qstrader.execution', 'qstrader.signals', 'qstrader.alpha_model',
                                  'qstrader.statistics.performance', 'qstrader.trading')):
            # int(x) of a proxy = truncation toward zero; the genuine builtin for everything else
            _SAVED.append((m, 'int', d.get('int', _MISSING)))
            m.int = _int
        if d.get('pd') is _pd and m.__name__.startswith(('qstrader.asset', 'qstrader.alpha_model', 'qstrader.exchange', 'qstrader.broker',
                                                          'qstrader.signals', 'qstrader.portcon', 'qstrader.execution')):
            _SAVED.append((m, 'pd', _pd))
            m.pd = pdx
        if d.get('floor') is math.floor:
            _SAVED.append((m, 'floor', math.floor))
            m.floor = _math_floor
        if d.get('datetime') is _dt and m.__name__ == 'qstrader.broker.portfolio.portfolio':
            _SAVED.append((m, 'datetime', _dt))
            m.datetime = DTProxy()


_MISSING = object()


def uninstall():
    while _SAVED:
        m, k, v = _SAVED.pop()
        if v is _MISSING:
            try:
                delattr(m, k)
            except AttributeError:
                pass
        else:
            setattr(m, k, v)


def rebind(module, name, value):
    """extra per-harness shim (e.g. `set`, `uuid`), undone by uninstall()."""
    _SAVED.append((module, name, module.__dict__.get(name, _MISSING)))
    setattr(module, name, value)
