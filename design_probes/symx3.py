"""symx2 + (a) independence slicing of feasibility queries, (b) x/0 -> Undefined poison instead of raising."""
from symx2 import *
import symx2 as _b, z3, time

_KEEP = []
def _vars(e, cache={}):
    k = e.get_id()
    if k in cache and cache[k][0].eq(e): return cache[k][1]
    out = set(); stack = [e]; seen = set()
    while stack:
        x = stack.pop()
        if x.get_id() in seen: continue
        seen.add(x.get_id())
        if z3.is_const(x) and x.decl().kind() == z3.Z3_OP_UNINTERPRETED: out.add(x.get_id())
        else: stack.extend(x.children())
    cache[k] = (e, frozenset(out)); return cache[k][1]

class Explorer(_b.Explorer):
    def _slice(self, cons, cond):
        need = set(_vars(cond)); chosen = []; rest = [(c, _vars(c)) for c in cons + self.base]
        changed = True
        while changed:
            changed = False; nxt = []
            for c, vs in rest:
                if vs & need: chosen.append(c); need |= vs; changed = True
                else: nxt.append((c, vs))
            rest = nxt
        return chosen
    def _check(self, extra):
        cond = extra[-1]; cons = self._slice(list(extra[:-1]), cond)
        self.queries += 1; t = time.time()
        s = z3.Solver(); s.set('timeout', self.tmo); s.add(*cons); s.add(cond); r = s.check()
        self.qtime += time.time() - t
        if r == z3.unknown: self.unknown += 1
        return r
    def __init__(self, timeout_ms=10000, assume=()):
        super().__init__(timeout_ms, assume); self.tmo = timeout_ms

class Undefined:
    def __init__(s, why): s.why = why
    def _bad(s, *a, **k): raise PathAbort('use of undefined value: ' + s.why)
    __add__=__radd__=__sub__=__rsub__=__mul__=__rmul__=__truediv__=__rtruediv__=__lt__=__le__=__gt__=__ge__=__eq__=__ne__=__bool__=__neg__=__abs__=_bad
    __hash__ = None
def _div(s, o):
    if isinstance(o, (int, float)) and not isinstance(o, bool) and o == 0: return Undefined('x/0')
    if isinstance(o, Sym) and o == 0: return Undefined('x/0 (symbolic zero)')
    return s._b(o, lambda a, b: a / b, keepint=False)
Sym.__truediv__ = _div
