import types, math
import numpy as _np
def copysign(a, b):
    # pure-python model of np.copysign(1, b) for int/real b (b == 0 -> +1)
    if b >= 0:
        return abs(a) * 1.0
    return -abs(a) * 1.0
class NPShim(types.SimpleNamespace):
    pass
def install():
    import qstrader.broker.transaction.transaction as T
    import qstrader.broker.portfolio.position as P
    import qstrader.execution.order as O
    shim = NPShim(copysign=copysign, nan=_np.nan, isnan=lambda x: x != x)
    T.np = shim; P.np = shim; O.np = shim
