import pandas as pd, pytz, numpy as np
from qstrader import settings; settings.set_print_events(False)
from qstrader.broker.simulated_broker import SimulatedBroker
from qstrader.broker.portfolio.portfolio import Portfolio
from qstrader.exchange.simulated_exchange import SimulatedExchange
from qstrader.execution.order import Order
U = pytz.UTC
def T(s): return pd.Timestamp(s, tz=U)
class DH:
    def __init__(s): s.px = {}
    def get_asset_latest_bid_ask_price(s, dt, a): p = s.px[a]; return (p, p)
    def get_asset_latest_mid_price(s, dt, a): return s.px[a]
def snap(b):
    return {pid: (p.cash, {a: (x['quantity'], x['market_value']) for a, x in p.portfolio_to_dict().items()}, len(p.history), p.current_dt, b.open_orders[pid].qsize()) for pid, p in b.portfolios.items()}, dict(b.cash_balances), b.current_dt

print("== (1) negative mark on 2nd asset during broker.update")
dh = DH(); t0 = T('2020-01-06 14:30')
b = SimulatedBroker(t0, SimulatedExchange(t0), dh, initial_funds=1e6)
b.create_portfolio('p'); b.subscribe_funds_to_portfolio('p', 1e6)
dh.px = {'A': 10.0, 'B': 20.0}
b.submit_order('p', Order(t0, 'A', 100)); b.submit_order('p', Order(t0, 'B', 100)); b.update(t0)
s0 = snap(b)
dh.px = {'A': 11.0, 'B': -1.0}
try: b.update(T('2020-01-06 21:00'))
except Exception as e: print('  raised', type(e).__name__, str(e)[:60])
s1 = snap(b); print('  before', s0); print('  after ', s1); print('  unchanged?', s0 == s1)

print("== (2) update() to a time earlier than a later-created portfolio's clock")
dh = DH(); dh.px = {'A': 10.0}
b = SimulatedBroker(t0, SimulatedExchange(t0), dh, initial_funds=1e6)
b.create_portfolio('p1'); b.subscribe_funds_to_portfolio('p1', 5e5)
b.submit_order('p1', Order(t0, 'A', 100)); b.update(t0)
b.update(T('2020-01-08 14:30'))
b.create_portfolio('p2'); b.subscribe_funds_to_portfolio('p2', 1e5)
b.submit_order('p2', Order(t0, 'A', 10)); b.update(T('2020-01-08 14:31'))
s0 = snap(b); dh.px = {'A': 12.0}
try: b.update(T('2020-01-07 14:30'))
except Exception as e: print('  raised', type(e).__name__, str(e)[:80])
s1 = snap(b); print('  before', s0); print('  after ', s1); print('  unchanged?', s0 == s1)

print("== (3) Portfolio.subscribe_funds(later dt, negative)")
p = Portfolio(t0, starting_cash=100.0)
try: p.subscribe_funds(T('2020-01-07'), -5.0)
except Exception as e: print('  raised', type(e).__name__)
print('  clock now', p.current_dt, 'cash', p.cash, 'hist', len(p.history))
print("== (4) no-quote order mid-batch")
dh = DH(); dh.px = {'A': 10.0, 'B': np.nan}
b = SimulatedBroker(t0, SimulatedExchange(t0), dh, initial_funds=1e6)
b.create_portfolio('p'); b.subscribe_funds_to_portfolio('p', 1e6)
b.submit_order('p', Order(t0, 'A', 100)); b.submit_order('p', Order(t0, 'B', 100))
try: b.update(t0)
except Exception as e: print('  raised', type(e).__name__, str(e)[:70])
print('  ', snap(b))
