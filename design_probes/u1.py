import itertools
import qstrader.portcon.pcm as pcm, qstrader.signals.signal as sig
ORDER = {'perm': None}
class NondetSet(set):
    def __iter__(self):
        items = sorted(set.__iter__(self))
        p = ORDER['perm']
        return iter([items[i] for i in p[:len(items)] if i < len(items)] if p else items)
    def union(self, o): return NondetSet(set.union(self, o))
    def __sub__(self, o): return NondetSet(set.__sub__(self, o))
pcm.set = NondetSet; sig.set = NondetSet
class B:
    def get_portfolio_as_dict(s, pid): return {'EQ:C': {'quantity': 1}, 'EQ:A': {'quantity': 2}}
class U:
    def get_assets(s, dt): return ['EQ:B', 'EQ:A', 'EQ:D']
m = pcm.PortfolioConstructionModel(B(), 'p', U(), None, None)
outs = set()
for perm in itertools.permutations(range(4)):
    ORDER['perm'] = perm; outs.add(tuple(m._obtain_full_asset_list(None)))
print('pcm full asset list over all 24 iteration orders:', outs)
class S(sig.Signal):
    def __call__(s, a, l): pass
class U2:
    def __init__(s): s.n = 0
    def get_assets(s, dt): return ['EQ:A'] if dt == 0 else ['EQ:A', 'EQ:C', 'EQ:B']
outs = set()
for perm in itertools.permutations(range(3)):
    ORDER['perm'] = perm; s_ = S(0, U2(), [2]); s_.assets = list(s_.assets); s_.update_assets(1); outs.add(tuple(s_.assets))
print('signal.assets after entry of two assets, over iteration orders:', outs)
