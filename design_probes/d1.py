import os, tempfile, numpy as np, pandas as pd, pytz
from qstrader import settings; settings.set_print_events(False)
from qstrader.broker.simulated_broker import SimulatedBroker
from qstrader.exchange.simulated_exchange import SimulatedExchange
from qstrader.data.daily_bar_csv import CSVDailyBarDataSource
from qstrader.data.backtest_data_handler import BacktestDataHandler
from qstrader.execution.order import Order

print("== C01: get_account_total_market_value with a portfolio")
t0 = pd.Timestamp('2020-01-06 14:30', tz=pytz.UTC)
class DH:
    def get_asset_latest_bid_ask_price(s, dt, a): return (10.0, 10.5)
    def get_asset_latest_mid_price(s, dt, a): return 10.25
b = SimulatedBroker(t0, SimulatedExchange(t0), DH(), initial_funds=1000.0)
b.create_portfolio('p')
try: print(b.get_account_total_market_value())
except Exception as e: print('  RAISES', type(e).__name__, e)
print("  equity:", b.get_account_total_equity())

print("== C06: query before first bar")
d = tempfile.mkdtemp()
open(os.path.join(d,'AAA.csv'),'w').write("Date,Open,High,Low,Close,Adj Close,Volume\n2020-01-06,10,11,9,10.5,10.5,100\n2020-01-07,20,21,19,20.5,20.5,100\n2020-01-08,30,31,29,30.5,30.5,100\n")
ds = CSVDailyBarDataSource(d, None, adjust_prices=False)
for ts in ['2020-01-03 21:00','2020-01-06 14:29','2020-01-06 14:30','2020-01-06 20:59','2020-01-06 21:00','2020-01-07 14:29','2020-01-09 00:00']:
    t = pd.Timestamp(ts, tz=pytz.UTC); print('  ', ts, ds.get_bid(t,'EQ:AAA'), ds.get_ask(t,'EQ:AAA'))
print(ds.asset_bid_ask_frames['EQ:AAA'])
