import warnings; warnings.simplefilter('ignore')
import sys, time, types, numpy as np, pandas as pd, z3, symx
import qstrader.statistics.performance as perf
class NPShim:
    def __getattr__(s, k): return getattr(np, k)
    def zeros(s, n): 
        a = np.empty(n, dtype=object); a[:] = 0; return a
    def log(s, x):
        if isinstance(x, pd.Series): return x.map(lambda v: v.log() if isinstance(v, symx.Sym) else symx.LogSym(symx.Sym(symx.R(v))))
        return np.log(x)
    def exp(s, x):
        if isinstance(x, pd.Series) and x.dtype == object: return x.map(lambda v: v.exp() if isinstance(v, symx.LogSym) else np.exp(v))
        return np.exp(x)
perf.np = NPShim()
N = int(sys.argv[1])
ex = symx.Explorer(timeout_ms=20000); symx.EX = ex
E = [symx.sym_real(f'e{i}') for i in range(N)]
ex.solver.add(*[e.e > 0 for e in E])
idx = pd.bdate_range('2020-01-30', periods=N)
def prog():
    eq = pd.Series(E, index=idx, dtype=object)
    ret = eq.pct_change().fillna(0.0)
    cum = perf.np.exp(perf.np.log(1 + ret).cumsum())
    dd, mx, dur = perf.create_drawdowns(cum)
    m = perf.aggregate_returns(ret, 'monthly')
    return list(cum), list(dd), mx, dur, list(m)
t0 = time.time()
paths = ex.run_all(prog)
print('paths', len(paths), 'queries', ex.queries, 'unknown', ex.unknown, round(time.time()-t0, 2), 's')
from collections import Counter
print(Counter(k for _, (k, _) in paths))
for pc, (k, out) in paths[:3]:
    if k == 'ok':
        cum, dd, mx, dur, m = out
        print(' cum', [z3.simplify(symx.R(c)) for c in cum]); print(' dd', [z3.simplify(symx.R(x)) if not isinstance(x, float) else x for x in dd]); print(' mx', mx if not isinstance(mx, symx.Sym) else z3.simplify(mx.e), 'dur', dur, 'monthly', [z3.simplify(symx.R(x)) for x in m])
    else: print(k, out)
# check spec on each path: dd[t] == 1 - cum[t]/max(cum[:t+1])
bad = 0
for pc, (k, out) in paths:
    if k != 'ok': continue
    cum, dd, mx, dur, m = out
    s = z3.Solver(); s.add(*[e.e > 0 for e in E]); s.add(*pc)
    viol = []
    for t in range(N):
        for j in range(t+1):
            # if cum[j] is the running max then dd[t] must equal 1 - cum[t]/cum[j]
            ismax = z3.And(*[symx.R(cum[j]) >= symx.R(cum[i]) for i in range(t+1)])
            viol.append(z3.And(ismax, symx.R(dd[t]) != 1 - symx.R(cum[t]) / symx.R(cum[j])))
    s.add(z3.Or(*viol))
    r = s.check()
    if r == z3.sat:
        bad += 1
        if bad == 1: print('CEX', [(str(e.e), s.model().eval(e.e, True)) for e in E])
print('paths violating drawdown spec:', bad, 'of', len(paths), 'total', round(time.time()-t0, 2), 's')
