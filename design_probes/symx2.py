"""Prototype v2: z3 proxy numbers + DFS path explorer with path-local axioms."""
import z3, math, time, builtins
from fractions import Fraction

class PathAbort(BaseException): pass

class Explorer:
    def __init__(self, timeout_ms=10000, assume=()):
        self.solver = z3.Solver(); self.solver.set('timeout', timeout_ms)
        self.base = list(assume); self.solver.add(*self.base)
        self.queries = 0; self.unknown = 0; self.qtime = 0.0
        self.fresh = 0
    def _check(self, extra):
        self.queries += 1; t = time.time()
        self.solver.push(); self.solver.add(*extra); r = self.solver.check(); self.solver.pop()
        self.qtime += time.time() - t
        if r == z3.unknown: self.unknown += 1
        return r
    def assume(self, c):           # path-local axiom (not a decision)
        self.pc.append(c)
    def newvar(self, sort, tag):
        self.fresh += 1
        n = '%s!%d' % (tag, len(self.pc))   # deterministic per position on path
        return z3.Const(n + '_' + str(sum(1 for _ in self.names if _.startswith(n))), sort) if False else self._nv(n, sort)
    def _nv(self, n, sort):
        k = self.names.get(n, 0); self.names[n] = k + 1
        return z3.Const('%s.%d' % (n, k), sort)
    def decide(self, cond):
        cond = z3.simplify(cond)
        if z3.is_true(cond): return True
        if z3.is_false(cond): return False
        i = len(self.trace)
        if i < len(self.prefix):
            b = self.prefix[i]
        else:
            rt = self._check(self.pc + [cond])
            if rt == z3.unsat: b = False; forced = True
            else:
                rf = self._check(self.pc + [z3.Not(cond)])
                b = True; forced = (rf == z3.unsat)
            if not forced: self.pending.append(self.trace + [False])
        self.trace.append(b)
        self.pc.append(cond if b else z3.Not(cond))
        return b
    def run_all(self, fn, max_paths=100000, budget_s=1e9):
        out = []; stack = [[]]; t0 = time.time()
        while stack:
            self.prefix = stack.pop(); self.trace = []; self.pc = []; self.pending = []; self.names = {}
            try: res = ('ok', fn())
            except PathAbort as e: res = ('abort', str(e))
            except Exception as e: res = ('raise', e)
            out.append((list(self.pc), res))
            stack.extend(self.pending)
            if len(out) >= max_paths or time.time() - t0 > budget_s:
                return out, len(stack)
        return out, 0

EX = None
def R(x):
    if isinstance(x, Sym): return x.e
    if isinstance(x, bool): raise TypeError('bool')
    if isinstance(x, int): return z3.RealVal(x)
    if isinstance(x, float):
        if x != x or x in (math.inf, -math.inf): raise TypeError('nan/inf')
        f = Fraction(x); return z3.RealVal(f.numerator) / z3.RealVal(f.denominator) if f.denominator != 1 else z3.RealVal(f.numerator)
    try:
        import numpy as np
        if isinstance(x, np.integer): return z3.RealVal(int(x))
        if isinstance(x, np.floating): return R(float(x))
    except ImportError: pass
    raise TypeError(type(x))

class SymBool:
    def __init__(self, e): self.e = e
    def __bool__(self): return EX.decide(self.e)

class Sym:
    __array_priority__ = 1000
    def __init__(self, e, is_int=False): self.e = e; self.is_int = is_int
    def _isint(o): return (isinstance(o, int) and not isinstance(o, bool)) or getattr(o, 'is_int', False)
    def _b(self, o, f, rev=False, keepint=True):
        try: oe = R(o)
        except TypeError: return NotImplemented
        return Sym(f(oe, self.e) if rev else f(self.e, oe), keepint and self.is_int and Sym._isint(o))
    def __add__(s, o): return s._b(o, lambda a, b: a + b)
    def __radd__(s, o): return s._b(o, lambda a, b: a + b, True)
    def __sub__(s, o): return s._b(o, lambda a, b: a - b)
    def __rsub__(s, o): return s._b(o, lambda a, b: a - b, True)
    def __mul__(s, o): return s._b(o, lambda a, b: a * b)
    def __rmul__(s, o): return s._b(o, lambda a, b: a * b, True)
    def __truediv__(s, o):
        if isinstance(o, (int, float)) and o == 0: raise ZeroDivisionError
        if isinstance(o, Sym) and o == 0: raise ZeroDivisionError
        return s._b(o, lambda a, b: a / b, keepint=False)
    def __rtruediv__(s, o):
        if s == 0: raise ZeroDivisionError
        return s._b(o, lambda a, b: a / b, True, keepint=False)
    def __neg__(s): return Sym(-s.e, s.is_int)
    def __pos__(s): return s
    def __abs__(s): return s if s >= 0 else -s
    def __lt__(s, o): 
        try: return SymBool(s.e < R(o))
        except TypeError: return False if isinstance(o, float) else NotImplemented
    def __le__(s, o):
        try: return SymBool(s.e <= R(o))
        except TypeError: return False if isinstance(o, float) else NotImplemented
    def __gt__(s, o):
        try: return SymBool(s.e > R(o))
        except TypeError: return False if isinstance(o, float) else NotImplemented
    def __ge__(s, o):
        try: return SymBool(s.e >= R(o))
        except TypeError: return False if isinstance(o, float) else NotImplemented
    def __eq__(s, o):
        try: return SymBool(s.e == R(o))
        except TypeError: return False
    def __ne__(s, o):
        try: return SymBool(s.e != R(o))
        except TypeError: return True
    __hash__ = None
    def __round__(s, nd=None):
        if s.is_int: return s
        k = 10 ** (nd or 0)
        n = EX._nv('round', z3.IntSort())
        EX.assume(z3.And(2 * (s.e * k - z3.ToReal(n)) <= 1, 2 * (z3.ToReal(n) - s.e * k) <= 1))
        return Sym(z3.ToReal(n), True) if not nd else Sym(z3.ToReal(n) / k)
    def __floor__(s):
        if s.is_int: return s
        n = EX._nv('floor', z3.IntSort())
        EX.assume(z3.And(z3.ToReal(n) <= s.e, s.e < z3.ToReal(n) + 1))
        return Sym(z3.ToReal(n), True)
    def __ceil__(s): return -((-s).__floor__())
    def __trunc__(s): return s.__floor__() if s >= 0 else s.__ceil__()
    def __int__(s): raise PathAbort('int() on symbolic')
    def __index__(s): raise PathAbort('index() on symbolic')
    def __float__(s):
        import sys, dis
        f = sys._getframe(1)
        ins = [i for i in dis.get_instructions(f.f_code) if i.offset == f.f_lasti]
        if ins and ins[0].opname == 'BINARY_OP' and ins[0].argrepr in ('%', '%='): return 0.0
        if ins and ins[0].opname in ('FORMAT_VALUE', 'FORMAT_WITH_SPEC', 'FORMAT_SIMPLE'): return 0.0
        raise PathAbort('float() on symbolic at %s:%d %s' % (f.f_code.co_filename, f.f_lineno, ins[0].opname if ins else '?'))
    def __repr__(s): return '<sym>'
    def conjugate(s): return s

def sym_real(name): return Sym(z3.Real(name))
def sym_int(name): return Sym(z3.ToReal(z3.Int(name)), True)

# ---- numpy / builtins shims placed in qstrader module namespaces
import numpy as _np
def _isnan(x): return False if isinstance(x, Sym) else bool(_np.isnan(x))
def _floor(x): return x.__floor__() if isinstance(x, Sym) else _np.floor(x)
def _ceil(x): return x.__ceil__() if isinstance(x, Sym) else _np.ceil(x)
def _int(x, *a): return x.__trunc__() if isinstance(x, Sym) else builtins.int(x, *a)
def _copysign(a, b):
    if isinstance(b, Sym): return abs(a) * 1.0 if b >= 0 else -abs(a) * 1.0
    return _np.copysign(a, b)
def _isclose(a, b, rtol=1e-05, atol=1e-08):
    if isinstance(a, Sym) or isinstance(b, Sym):
        d = a - b; d = d if d >= 0 else -d
        return bool(d <= atol + rtol * abs(b))
    return _np.isclose(a, b, rtol=rtol, atol=atol)
class NP:
    nan = _np.nan
    isnan = staticmethod(_isnan); floor = staticmethod(_floor); ceil = staticmethod(_ceil)
    copysign = staticmethod(_copysign); isclose = staticmethod(_isclose)
    abs = staticmethod(abs)
    def __getattr__(s, k): return getattr(_np, k)
def install():
    import qstrader.broker.transaction.transaction as T, qstrader.broker.portfolio.position as P, qstrader.execution.order as O
    import qstrader.broker.simulated_broker as B, qstrader.portcon.order_sizer.dollar_weighted as DW, qstrader.portcon.order_sizer.long_short as LS
    import qstrader.data.backtest_data_handler as DH
    for m in (T, P, O, B, DW, LS, DH): m.np = NP()
    P.floor = _floor
    for m in (P, DW, LS): m.int = _int
