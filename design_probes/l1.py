import warnings; warnings.simplefilter('ignore')
import sys, time, z3, numpy as np, pandas as pd
import symx3 as sx, symx2
import qstrader.data.daily_bar_csv as dbc
MODE = sys.argv[1]; N = int(sys.argv[2])       # current | fixed | nearest
src = open(dbc.__file__).read()
if MODE == 'fixed':
    for col in ('Bid', 'Ask'):
        v = col.lower()
        old = f"        {v}_series = bid_ask_df.iloc[bid_ask_df.index.get_indexer([dt], method='pad')]['{col}']\n"
        new = f"        idx = bid_ask_df.index.get_indexer([dt], method='pad')\n        if idx[0] == -1:  # Before start date\n            return np.nan\n        {v}_series = bid_ask_df.iloc[idx]['{col}']\n"
        assert old in src; src = src.replace(old, new)
if MODE == 'nearest': src = src.replace("method='pad'", "method='nearest'")
ns = {'__name__': 'dbc_under_test'}; exec(compile(src, dbc.__file__, 'exec'), ns); CSV = ns['CSVDailyBarDataSource']

class TS:                                   # symbolic instant
    def __init__(s, t): s.t = t
    def __lt__(s, o): return sx.SymBool(s.t < o.t)
    def __le__(s, o): return sx.SymBool(s.t <= o.t)
    def __gt__(s, o): return sx.SymBool(s.t > o.t)
    def __ge__(s, o): return sx.SymBool(s.t >= o.t)
    def __eq__(s, o): return sx.SymBool(s.t == o.t) if isinstance(o, TS) else False
    __hash__ = None
class IndexStub:                            # contract of pandas.Index.get_indexer / positional access
    def __init__(s, times): s.times = times
    def __len__(s): return len(s.times)
    def __getitem__(s, i): return s.times[i]
    def get_indexer(s, target, method=None, **kw):
        out = []
        for dt in target:
            n = len(s.times)
            if method in ('pad', 'ffill'):
                pos = -1
                for i in range(n):
                    if s.times[i] <= dt: pos = i
                    else: break
            elif method in ('backfill', 'bfill'):
                pos = -1
                for i in range(n - 1, -1, -1):
                    if s.times[i] >= dt: pos = i
                    else: break
            elif method == 'nearest':
                pos = -1; 
                for i in range(n):
                    if pos == -1: pos = i
                    else:
                        d_old = dt.t - s.times[pos].t; d_new = dt.t - s.times[i].t
                        ao = z3.If(d_old >= 0, d_old, -d_old); an = z3.If(d_new >= 0, d_new, -d_new)
                        if bool(sx.SymBool(an < ao)): pos = i
            elif method is None:
                pos = -1
                for i in range(n):
                    if s.times[i] == dt: pos = i; break
            else: raise ValueError(method)
            out.append(pos)
        return np.array(out)
class ILoc:
    def __init__(s, fr): s.fr = fr
    def __getitem__(s, k):
        rows = s.fr.rows; n = len(rows)
        if isinstance(k, (list, np.ndarray)):
            sel = []
            for i in k:
                i = int(i)
                if i < -n or i >= n: raise IndexError('positional indexers are out-of-bounds')
                sel.append(rows[i])
            return FrameStub(sel, s.fr.cols)
        i = int(k)
        if i < -n or i >= n: raise IndexError('single positional indexer is out-of-bounds')
        return rows[i] if s.fr.cols is None else rows[i][1][s.fr.cols]
class FrameStub:
    def __init__(s, rows, cols=None): s.rows = rows; s.cols = cols     # rows: [(TS, {'Bid':..,'Ask':..})]
    @property
    def index(s): return IndexStub([r[0] for r in s.rows])
    @property
    def iloc(s): return ILoc(s)
    def __getitem__(s, col): return FrameStub(s.rows, col)
    def __len__(s): return len(s.rows)

t = [z3.Int('t%d' % i) for i in range(N)]; q = z3.Int('q')
bid = [sx.sym_real('bid%d' % i) for i in range(N)]; ask = [sx.sym_real('ask%d' % i) for i in range(N)]
assume = [t[i] < t[i + 1] for i in range(N - 1)]
ex = sx.Explorer(assume=assume); sx.EX = ex; symx2.EX = ex
def prog():
    ds = object.__new__(CSV)
    ds.asset_bid_ask_frames = {'EQ:A': FrameStub([(TS(t[i]), {'Bid': bid[i], 'Ask': ask[i]}) for i in range(N)])}
    return CSV.get_bid.__wrapped__(ds, TS(q), 'EQ:A'), CSV.get_ask.__wrapped__(ds, TS(q), 'EQ:A')
t0 = time.time(); paths, left = ex.run_all(prog)
from collections import Counter
print(MODE, 'rows', N, 'paths', len(paths), Counter((k, type(o).__name__ if k == 'raise' else '') for _, (k, o) in paths), round(time.time() - t0, 2), 's')
bad = 0
for pc, (k, o) in paths:
    s = z3.Solver(); s.add(*assume, *pc)
    if k != 'ok': bad += 1; print('  unexpected', k, o); continue
    for got, col in zip(o, (bid, ask)):
        # spec: value of the row with greatest time <= q, NaN if none
        isnan = isinstance(got, float) and got != got
        viol = []
        viol.append(z3.And(q < t[0], z3.BoolVal(not isnan)))
        for i in range(N):
            last = z3.And(t[i] <= q, (q < t[i + 1]) if i + 1 < N else z3.BoolVal(True))
            viol.append(z3.And(last, z3.BoolVal(True) if isnan else (sx.R(got) != col[i].e)))
        s.push(); s.add(z3.Or(*viol)); r = s.check()
        if r == z3.sat:
            bad += 1; m = s.model()
            if bad <= 2: print('  CEX: rows at', [m.eval(x, True) for x in t], 'query', m.eval(q, True), '-> returned', 'NaN' if isnan else z3.simplify(got.e))
        s.pop()
print('  violating (path, column) pairs:', bad)
