"""Prototype: execute real Python code on z3-backed proxy numbers, exploring every path by re-execution."""
import z3, math, time

class PathAbort(BaseException): pass

class Explorer:
    def __init__(self, timeout_ms=20000):
        self.solver = z3.Solver(); self.solver.set('timeout', timeout_ms)
        self.prefix = []      # decisions to replay
        self.trace = []       # decisions taken this run
        self.pc = []
        self.queries = 0
        self.unknown = 0
    def decide(self, cond):
        i = len(self.trace)
        if i < len(self.prefix):
            b = self.prefix[i]
        else:
            # choose True if feasible else False
            t = self._feasible(cond); 
            if t: b = True
            else: b = False
        self.trace.append(b)
        self.pc.append(cond if b else z3.Not(cond))
        return b
    def _feasible(self, c):
        self.queries += 1
        self.solver.push(); self.solver.add(*self.pc); self.solver.add(c)
        r = self.solver.check(); self.solver.pop()
        if r == z3.unknown: self.unknown += 1
        return r != z3.unsat
    def run_all(self, fn, max_paths=10000):
        paths = []
        stack = [[]]
        while stack:
            self.prefix = stack.pop(); self.trace = []; self.pc = []
            try:
                out = ('ok', fn())
            except PathAbort:
                out = ('abort', None)
            except Exception as e:
                out = ('raise', e)
            # infeasible final pc?
            paths.append((list(self.pc), out))
            # schedule siblings for decisions beyond prefix that took True
            for i in range(len(self.prefix), len(self.trace)):
                if self.trace[i]:
                    alt_pc = self.pc[:i] + [z3.Not(self.pc[i])]
                    self.queries += 1
                    self.solver.push(); self.solver.add(*alt_pc); r = self.solver.check(); self.solver.pop()
                    if r != z3.unsat:
                        stack.append(self.trace[:i] + [False])
            if len(paths) > max_paths: raise RuntimeError('too many paths')
        return paths

EX = None
def R(x):
    if isinstance(x, Sym): return x.e
    if isinstance(x, bool): raise TypeError
    if isinstance(x, int): return z3.RealVal(x)
    if isinstance(x, float):
        from fractions import Fraction
        f = Fraction(x); return z3.RealVal(f.numerator) / z3.RealVal(f.denominator)
    raise TypeError(type(x))

class SymBool:
    def __init__(self, e): self.e = e
    def __bool__(self): return EX.decide(self.e)

class Sym:
    __array_priority__ = 1000
    def __init__(self, e, is_int=False): self.e = e; self.is_int = is_int
    def _b(self, o, f, rev=False):
        try: oe = R(o)
        except TypeError: return NotImplemented
        return Sym(f(oe, self.e) if rev else f(self.e, oe), self.is_int and (isinstance(o, int) or getattr(o, 'is_int', False)) and f is not _div)
    def __add__(s, o): return s._b(o, lambda a, b: a + b)
    def __radd__(s, o): return s._b(o, lambda a, b: a + b, True)
    def __sub__(s, o): return s._b(o, lambda a, b: a - b)
    def __rsub__(s, o): return s._b(o, lambda a, b: a - b, True)
    def __mul__(s, o): return s._b(o, lambda a, b: a * b)
    def __rmul__(s, o): return s._b(o, lambda a, b: a * b, True)
    def __truediv__(s, o):
        if o == 0: raise ZeroDivisionError
        return s._b(o, _div)
    def __rtruediv__(s, o):
        if s == 0: raise ZeroDivisionError
        return s._b(o, _div, True)
    def __neg__(s): return Sym(-s.e, s.is_int)
    def __pos__(s): return s
    def __abs__(s): return s if s >= 0 else -s
    def __lt__(s, o): return SymBool(s.e < R(o))
    def __le__(s, o): return SymBool(s.e <= R(o))
    def __gt__(s, o): return SymBool(s.e > R(o))
    def __ge__(s, o): return SymBool(s.e >= R(o))
    def __eq__(s, o):
        try: return SymBool(s.e == R(o))
        except TypeError: return False
    def __ne__(s, o):
        try: return SymBool(s.e != R(o))
        except TypeError: return True
    __hash__ = None
    def __floor__(s):
        if s.is_int: return s
        raise NotImplementedError('floor of non-int sym')
    def __int__(s): raise PathAbort('int() on symbolic')
    def __index__(s): raise PathAbort('index on symbolic')
    def __float__(s): raise PathAbort('float() on symbolic')
def _div(a, b): return a / b

def sym_real(name): return Sym(z3.Real(name))
def sym_int(name): return Sym(z3.ToReal(z3.Int(name)), True)

# --- extras for numpy/pandas object-dtype kernels
class Undefined:
    def __init__(s, why): s.why = why
    def _bad(s, *a, **k): raise PathAbort('use of undefined value: ' + s.why)
    __add__=__radd__=__sub__=__rsub__=__mul__=__rmul__=__truediv__=__rtruediv__=__lt__=__le__=__gt__=__ge__=__eq__=__ne__=__bool__=__neg__=__abs__=_bad
    __hash__ = None
class LogSym:
    """log of a positive real kept as the argument: log(a)+log(b) = log(ab); exp(log(a)) = a (exact over positive reals)"""
    def __init__(s, arg): s.arg = arg
    def __add__(s, o):
        if isinstance(o, LogSym): return LogSym(s.arg * o.arg)
        if isinstance(o, (int, float)) and o == 0: return s
        return NotImplemented
    __radd__ = __add__
    def exp(s): return s.arg
def _sym_log(s):
    if not (s > 0): raise PathAbort('log of non-positive')
    return LogSym(s)
_sqrt_ctr = [0]
def _sym_sqrt(s):
    _sqrt_ctr[0] += 1
    r = z3.Real('sqrt!%d' % _sqrt_ctr[0])
    EX.solver.add(r >= 0, r * r == s.e)   # NOTE: prototype: global axiom
    return Sym(r)
Sym.log = _sym_log
Sym.sqrt = _sym_sqrt
Sym.conjugate = lambda s: s
_old_div = Sym.__truediv__
def _div2(s, o):
    if isinstance(o, (int, float)) and o == 0: return Undefined('division by constant zero')
    return _old_div(s, o)
Sym.__truediv__ = _div2
