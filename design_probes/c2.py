from qstrader.broker.fee_model.percent_fee_model import PercentFeeModel

def fee_nonneg_symmetric(c: float, t: float, consideration: float) -> bool:
    """
    pre: 0 <= c <= 1 and 0 <= t <= 1
    pre: -1e9 < consideration < 1e9
    post: _ == True
    """
    m = PercentFeeModel(c, t)
    a = m.calc_total_cost('A', 1, consideration); b = m.calc_total_cost('A', -1, -consideration)
    return a >= 0 and a == b and a == (c + t) * abs(consideration)

def fee_witness(c: float, t: float, consideration: float) -> bool:
    """
    pre: 0 <= c <= 1 and 0 <= t <= 1
    post: _ == True
    """
    return PercentFeeModel(c, t).calc_total_cost('A', 1, consideration) == 0
