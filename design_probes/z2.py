import warnings; warnings.simplefilter('ignore')
import sys, time, z3, numpy as np, pandas as pd
import symx2 as sx; sx.install()
from qstrader.portcon.order_sizer.dollar_weighted import DollarWeightedCashBufferedOrderSizer
from qstrader.portcon.order_sizer.long_short import LongShortLeveragedOrderSizer
from qstrader.broker.fee_model.percent_fee_model import PercentFeeModel
N = int(sys.argv[1]); MODE = sys.argv[2]
A = ['A', 'B', 'C'][:N]
E = sx.sym_real('E'); b = sx.sym_real('b'); L = sx.sym_real('L'); cr = sx.sym_real('cr'); tr = sx.sym_real('tr')
w = {a: sx.sym_real('w' + a) for a in A}; p = {a: sx.sym_real('p' + a) for a in A}
f = cr.e + tr.e
assume = [E.e > 0, cr.e >= 0, tr.e >= 0, f <= 1] + [x.e > 0 for x in p.values()]
class Broker:
    fee_model = PercentFeeModel(cr, tr)
    def get_portfolio_total_equity(s, pid): return E
class DH:
    def get_asset_latest_ask_price(s, dt, a): return p[a]
if MODE == 'lo':
    assume += [x.e >= 0 for x in w.values()]
    ws = sum((x.e for x in w.values()), z3.RealVal(0))
    assume += [z3.Or(ws == 0, ws > z3.Q(2, 10**8))]
else:
    assume += [L.e > 0]
ex = sx.Explorer(timeout_ms=20000, assume=assume); sx.EX = ex
def prog():
    if MODE == 'lo':
        s = DollarWeightedCashBufferedOrderSizer(Broker(), 'p', DH(), cash_buffer_percentage=b)
    else:
        s = LongShortLeveragedOrderSizer(Broker(), 'p', DH(), gross_leverage=L)
    return s(None, dict(w))
t0 = time.time(); paths, left = ex.run_all(prog, budget_s=600)
from collections import Counter
print(MODE, 'N', N, 'paths', len(paths), 'queries', ex.queries, 'unknown', ex.unknown, 'explore_s', round(time.time() - t0, 1))
print(Counter((k, type(o).__name__ if k == 'raise' else '') for _, (k, o) in paths))
ok = bad = unk = 0; tq = time.time(); worst = 0
for pc, (k, o) in paths:
    if k != 'ok': continue
    s = z3.Solver(); s.set('timeout', 60000); s.add(*assume); s.add(*pc)
    viol = []
    if MODE == 'lo':
        ws = sum((x.e for x in w.values()), z3.RealVal(0))
        tot = z3.RealVal(0)
        for a in A:
            q = sx.R(o[a]['quantity'])
            share = z3.If(ws == 0, z3.RealVal(0), (1 - b.e) * E.e * w[a].e / ws)
            fee = f * share
            viol += [q < 0, q * p[a].e + fee > share, (q + 1) * p[a].e + fee <= share]
            tot = tot + q * p[a].e
        viol.append(tot > (1 - b.e) * E.e)
    else:
        g = sum((z3.If(x.e >= 0, x.e, -x.e) for x in w.values()), z3.RealVal(0))
        s.add(z3.Or(g == 0, g > z3.Q(2, 10**8)))
        tot = z3.RealVal(0)
        for a in A:
            q = sx.R(o[a]['quantity'])
            viol += [z3.And(w[a].e > 0, q < 0), z3.And(w[a].e < 0, q > 0), z3.And(w[a].e == 0, q != 0)]
            tot = tot + z3.If(q >= 0, q, -q) * p[a].e
        viol.append(tot > L.e * E.e * (1 + f))
    for v in viol:
        s.push(); s.add(v); t1 = time.time(); r = s.check(); worst = max(worst, time.time() - t1); 
        ok += r == z3.unsat; bad += r == z3.sat; unk += r == z3.unknown
        if r == z3.sat and bad == 1: print('CEX', s.model())
        s.pop()
print(' verdicts ok', ok, 'bad', bad, 'unk', unk, 'check_s', round(time.time() - tq, 1), 'worst', round(worst, 1))
