import warnings; warnings.simplefilter('ignore')
import sys, time, numpy as np, pandas as pd, pytz, z3
import symx2 as sx; sx.install()
from qstrader import settings; settings.set_print_events(False)
from qstrader.data.daily_bar_csv import CSVDailyBarDataSource
from qstrader.data.backtest_data_handler import BacktestDataHandler
from qstrader.asset.universe.static import StaticUniverse
from qstrader.alpha_model.fixed_signals import FixedSignalsAlphaModel
from qstrader.trading.backtest import BacktestTradingSession
from qstrader.broker.fee_model.percent_fee_model import PercentFeeModel

NA = int(sys.argv[1]); ND = int(sys.argv[2]); REB = sys.argv[3]
assets = ['EQ:%s' % c for c in 'ABC'[:NA]]
days = pd.bdate_range('2020-01-06', periods=ND)   # Monday start
V = {}; assume = []
def var(n):
    v = sx.sym_real(n); V[n] = v; assume.append(v.e > 1); assume.append(v.e < 1000); return v
frames = {}
for a in assets:
    o = [var('%s_o%d' % (a[3:], i)) for i in range(ND)]; c = [var('%s_c%d' % (a[3:], i)) for i in range(ND)]
    frames[a] = pd.DataFrame({'Open': pd.Series(o, dtype=object).values, 'Close': pd.Series(c, dtype=object).values}, index=pd.DatetimeIndex(days, tz='UTC', name='Date'))
ds = object.__new__(CSVDailyBarDataSource)
ds.adjust_prices = False; ds.asset_bar_frames = frames
ds.asset_bid_ask_frames = ds._convert_bars_into_bid_ask_dfs()
print(ds.asset_bid_ask_frames[assets[0]].head(3))
ex = sx.Explorer(timeout_ms=5000, assume=assume); sx.EX = ex
start = pd.Timestamp('2020-01-06 14:30', tz=pytz.UTC); end = pd.Timestamp(days[-1].strftime('%Y-%m-%d') + ' 23:59', tz=pytz.UTC)
w = {a: 1.0 / NA for a in assets}
def prog():
    CSVDailyBarDataSource.get_bid.cache_clear(); CSVDailyBarDataSource.get_ask.cache_clear()
    uni = StaticUniverse(assets)
    dh = BacktestDataHandler(uni, data_sources=[ds])
    kw = dict(rebalance=REB, long_only=True, cash_buffer_percentage=0.05, data_handler=dh, fee_model=PercentFeeModel(0.001, 0.0))
    if REB == 'weekly': kw['rebalance_weekday'] = 'WED'
    s = BacktestTradingSession(start, end, uni, FixedSignalsAlphaModel(w), **kw)
    s.run()
    hist = s.broker.portfolios['000001'].history
    return s.equity_curve, [(h.dt, h.type, h.debit, h.credit, h.balance) for h in hist]
t0 = time.time()
paths, left = ex.run_all(prog, budget_s=float(sys.argv[4]))
print('paths', len(paths), 'unexplored', left, 'queries', ex.queries, 'unknown', ex.unknown, 'solver_s', round(ex.qtime, 1), 'wall', round(time.time() - t0, 1))
from collections import Counter
print(Counter((k, str(o)[:80] if k != 'ok' else '') for _, (k, o) in paths))
for pc, (k, o) in paths[:1]:
    if k == 'ok':
        eq, h = o
        for d, v in eq[:4]: print(' ', d, z3.simplify(sx.R(v)) if isinstance(v, sx.Sym) else v)
        for x in h[:4]: print(' ', x[0], x[1], *[(z3.simplify(sx.R(y)) if isinstance(y, sx.Sym) else y) for y in x[2:]])
        print(' pc len', len(pc))
