import warnings; warnings.simplefilter('ignore')
import numpy as np, pandas as pd, z3, itertools, math
import symx2 as sx
# NaN propagation for proxies
_old = sx.Sym._b
def _b(self, o, f, rev=False, keepint=True):
    if isinstance(o, float) and o != o: return float('nan')
    return _old(self, o, f, rev, keepint)
sx.Sym._b = _b
from qstrader.data.daily_bar_csv import CSVDailyBarDataSource
ex = sx.Explorer(); sx.EX = ex; ex.prefix=[]; ex.trace=[]; ex.pc=[]; ex.pending=[]; ex.names={}
days = pd.DatetimeIndex(['2020-01-06', '2020-01-07', '2020-01-09'], tz='UTC', name='Date')   # gap on 01-08
def run(perm, nanmask, adjust):
    O = [sx.sym_real('o%d' % i) for i in range(3)]; C = [sx.sym_real('c%d' % i) for i in range(3)]; AC = [sx.sym_real('a%d' % i) for i in range(3)]
    o = [float('nan') if ('o', i) in nanmask else O[i] for i in range(3)]
    c = [float('nan') if ('c', i) in nanmask else C[i] for i in range(3)]
    df = pd.DataFrame({'Open': pd.Series(o, dtype=object).values, 'High': 0.0, 'Close': pd.Series(c, dtype=object).values, 'Adj Close': pd.Series(AC, dtype=object).values}, index=days)
    df = df.iloc[list(perm)]
    ds = object.__new__(CSVDailyBarDataSource); ds.adjust_prices = adjust
    out = ds._convert_bar_frame_into_bid_ask_df(df)
    return out
def show(v): return 'nan' if isinstance(v, float) and v != v else (str(z3.simplify(v.e)) if isinstance(v, sx.Sym) else repr(v))
for perm, nanmask, adjust in [((0,1,2), set(), False), ((2,0,1), {('o',1)}, False), ((1,2,0), {('c',0)}, True), ((0,1,2), {('o',0)}, False)]:
    try:
        out = run(perm, nanmask, adjust)
        print('perm', perm, 'nan', nanmask, 'adjust', adjust)
        for ts, row in out.iterrows(): print('   ', ts, show(row['Bid']), show(row['Ask']))
    except BaseException as e:
        print('perm', perm, nanmask, adjust, 'FAIL', type(e).__name__, str(e)[:200])
