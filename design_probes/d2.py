import numpy as np, pandas as pd, pytz, warnings
warnings.simplefilter('ignore')
from qstrader.system.rebalance.weekly import WeeklyRebalance
from qstrader.system.rebalance.daily import DailyRebalance
from qstrader.system.rebalance.end_of_month import EndOfMonthRebalance
from qstrader.system.rebalance.buy_and_hold import BuyAndHoldRebalance
from qstrader.simulation.daily_bday import DailyBusinessDaySimulationEngine
U = pytz.UTC
def T(s): return pd.Timestamp(s, tz=U)
print("== C13 start with time of day")
for cls, args in [(WeeklyRebalance, ('WED',)), (DailyRebalance, ()), (EndOfMonthRebalance, ())]:
    for s, e in [('2020-01-01 14:30', '2020-02-15 23:59'), ('2020-01-01 00:00', '2020-02-15 23:59'), ('2020-01-01 22:00','2020-02-15 23:59'), ('2020-01-31 22:00','2020-03-01 23:59')]:
        try:
            r = cls(T(s), T(e), *args).rebalances
            print(cls.__name__, s, e, len(r), r[:2], r[-1:] )
        except Exception as ex:
            print(cls.__name__, s, e, 'RAISES', type(ex).__name__, str(ex)[:100])
print("== buy and hold")
for s in ['2020-01-04 14:30', '2020-01-03 14:30', '2020-01-05 00:00']:
    print(s, BuyAndHoldRebalance(T(s)).rebalances)
print("== C12 engine start time-of-day")
for s, e in [('2020-01-03 14:30','2020-01-07 23:59'), ('2020-01-03 22:00','2020-01-07 23:59'), ('2020-01-04 00:00','2020-01-05 23:59'), ('2020-01-03 00:00','2020-01-03 00:00'), ('2020-01-03 10:00','2020-01-06 09:00')]:
    ev = [(x.ts.strftime('%a %m-%d %H:%M'), x.event_type) for x in DailyBusinessDaySimulationEngine(T(s), T(e))]
    print(s, e, len(ev), ev[:4], ev[-2:])
print("== C17 drawdown")
import qstrader.statistics.performance as perf
idx = pd.bdate_range('2020-01-01', periods=4)
eq = pd.Series([100., 90., 80., 100.], index=idx)
ret = eq.pct_change().fillna(0.0); cum = np.exp(np.log(1+ret).cumsum())
dd, mx, dur = perf.create_drawdowns(cum)
print(cum.values, dd.values, mx, dur)
