import warnings; warnings.simplefilter('ignore')
import datetime, numpy as np, pandas as pd, z3, time
import symx2 as sx
def _sqrt(s):
    r = sx.EX._nv('sqrt', z3.RealSort()); sx.EX.assume(z3.And(r >= 0, r * r == s.e)); return sx.Sym(r)
sx.Sym.sqrt = _sqrt
ex = sx.Explorer(); sx.EX = ex
P = [sx.sym_real(f'p{i}') for i in range(4)]
def tryit(name, f):
    ex.prefix=[]; ex.trace=[]; ex.pc=[]; ex.pending=[]; ex.names={}
    try:
        r = f(); print(name, 'OK ->', type(r).__name__, (z3.simplify(r.e) if isinstance(r, sx.Sym) else r))
    except BaseException as e:
        print(name, 'FAIL', type(e).__name__, str(e)[:200])
tryit('np.std(obj ndarray)', lambda: np.std(np.array(P, dtype=object)))
s = pd.Series(P, index=pd.bdate_range('2020-01-01', periods=4), dtype=object)
tryit('np.std(obj Series)', lambda: np.std(s))
tryit('np.mean(obj Series)', lambda: np.mean(s))
tryit('np.std(Series[Series<0])', lambda: np.std(s[s < 0]))
tryit('np.max(Series)', lambda: np.max(s))
tryit('pow', lambda: s.iloc[-1] ** (1.0 / 2.5))

print('--- SymTimestamp through real SimulatedExchange')
from qstrader.exchange.simulated_exchange import SimulatedExchange
NS = 10**9
class SymTime:
    def __init__(s, tod): s.tod = tod
    def _c(s, o):
        if isinstance(o, datetime.time): return ((o.hour*60+o.minute)*60+o.second)*NS + o.microsecond*1000
        if isinstance(o, SymTime): return o.tod
        raise TypeError
    def __lt__(s, o): return sx.SymBool(s.tod < s._c(o))
    def __le__(s, o): return sx.SymBool(s.tod <= s._c(o))
    def __gt__(s, o): return sx.SymBool(s.tod > s._c(o))
    def __ge__(s, o): return sx.SymBool(s.tod >= s._c(o))
class SymTimestamp:
    """ns since a Monday 00:00 UTC"""
    def __init__(s, t): s.t = t
    def weekday(s): return sx.Sym(z3.ToReal((s.t / (86400*NS)) % 7), True)
    def time(s): return SymTime(s.t % (86400*NS))
    def __lt__(s, o): return sx.SymBool(s.t < o.t)
    def __ge__(s, o): return sx.SymBool(s.t >= o.t)
t = z3.Int('t')
ex2 = sx.Explorer(assume=[t >= 0]); sx.EX = ex2
exch = SimulatedExchange(None)
paths, _ = ex2.run_all(lambda: exch.is_open_at_datetime(SymTimestamp(t)))
print('paths', len(paths), [(o) for _, o in paths])
spec = z3.And((t / (86400*NS)) % 7 <= 4, t % (86400*NS) >= (14*60+30)*60*NS, t % (86400*NS) < 21*3600*NS)
t0 = time.time()
for pc, (k, out) in paths:
    s_ = z3.Solver(); s_.add(t >= 0, *pc, spec != bool(out)); print('  path ->', out, 'spec-mismatch:', s_.check())
print('  time', round(time.time() - t0, 2))

print('--- buffer key injectivity (z3 strings)')
a1, a2, l1, l2 = z3.Strings('a1 a2 l1 l2')
digits = z3.Union(z3.Re('0'), z3.Concat(z3.Range('1', '9'), z3.Star(z3.Range('0', '9'))))
s3 = z3.Solver(); s3.set('timeout', 30000)
s3.add(z3.InRe(l1, digits), z3.InRe(l2, digits))
s3.add(z3.Concat(a1, z3.StringVal('_'), l1) == z3.Concat(a2, z3.StringVal('_'), l2))
s3.add(z3.Or(a1 != a2, l1 != l2))
t0 = time.time(); print('  injective? (unsat expected):', s3.check(), round(time.time() - t0, 2), 's')
