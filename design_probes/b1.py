import warnings; warnings.simplefilter('ignore')
import sys, time, datetime, z3, numpy as np
import symx2 as sx; sx.install()
from qstrader import settings; settings.set_print_events(False)
import qstrader.broker.portfolio.portfolio as PF
from qstrader.broker.simulated_broker import SimulatedBroker
from qstrader.exchange.simulated_exchange import SimulatedExchange
from qstrader.broker.fee_model.percent_fee_model import PercentFeeModel
from qstrader.execution.order import Order
NS = 10**9; DAY = 86400*NS
class SymTime:
    def __init__(s, tod): s.tod = tod
    def _c(s, o): return ((o.hour*60+o.minute)*60+o.second)*NS + o.microsecond*1000 if isinstance(o, datetime.time) else o.tod
    def __lt__(s, o): return sx.SymBool(s.tod < s._c(o))
    def __le__(s, o): return sx.SymBool(s.tod <= s._c(o))
    def __gt__(s, o): return sx.SymBool(s.tod > s._c(o))
    def __ge__(s, o): return sx.SymBool(s.tod >= s._c(o))
class SymTS:
    def __init__(s, t): s.t = t
    def weekday(s): return sx.Sym(z3.ToReal((s.t / DAY) % 7), True)
    def time(s): return SymTime(s.t % DAY)
    def strftime(s, f): return '<ts>'
    def __lt__(s, o): return sx.SymBool(s.t < o.t)
    def __le__(s, o): return sx.SymBool(s.t <= o.t)
    def __gt__(s, o): return sx.SymBool(s.t > o.t)
    def __ge__(s, o): return sx.SymBool(s.t >= o.t)
    def __eq__(s, o): return sx.SymBool(s.t == o.t)
    __hash__ = None
class DTshim:
    class datetime:
        @staticmethod
        def strftime(dt, f): return '<date>'
PF.datetime = DTshim
NO = int(sys.argv[1])
t0, t1 = z3.Ints('t0 t1')
cash = sx.sym_real('cash'); cr = sx.sym_real('cr'); tr = sx.sym_real('tr')
qs = [sx.sym_int('q%d' % i) for i in range(NO)]
bid = {a: sx.sym_real('bid' + a) for a in 'AB'}; ask = {a: sx.sym_real('ask' + a) for a in 'AB'}
assume = [t0 >= 0, t1 >= t0, cash.e >= 0, cr.e >= 0, cr.e <= 1, tr.e >= 0, tr.e <= 1] + [q.e != 0 for q in qs] + [v.e > 0 for v in list(bid.values()) + list(ask.values())]
class DH:
    def get_asset_latest_bid_ask_price(s, dt, a): return (bid[a], ask[a])
    def get_asset_latest_mid_price(s, dt, a): return (bid[a] + ask[a]) / 2.0
ex = sx.Explorer(timeout_ms=10000, assume=assume); sx.EX = ex
def prog():
    T0 = SymTS(t0)
    b = SimulatedBroker(T0, SimulatedExchange(T0), DH(), initial_funds=0.0, fee_model=PercentFeeModel(cr, tr))
    b.subscribe_funds_to_account(cash)
    b.create_portfolio('p'); b.subscribe_funds_to_portfolio('p', cash)
    for i, q in enumerate(qs): b.submit_order('p', Order(T0, 'AB'[i % 2], q, order_id='o%d' % i))
    c0 = b.get_portfolio_cash_balance('p')
    b.update(SymTS(t1))
    p = b.portfolios['p']
    return c0, p.cash, [(h.type, h.debit, h.credit, h.balance) for h in p.history], b.open_orders['p'].qsize(), {a: x['quantity'] for a, x in b.get_portfolio_as_dict('p').items()}
tt = time.time()
paths, left = ex.run_all(prog, budget_s=600)
from collections import Counter
print('orders', NO, 'paths', len(paths), 'left', left, 'queries', ex.queries, 'unknown', ex.unknown, 'solver_s', round(ex.qtime, 1), 'wall', round(time.time() - tt, 1))
print(Counter((k, str(o)[:60] if k != 'ok' else (o[3], len(o[2]))) for _, (k, o) in paths))
# conservation check on each ok path
openspec = z3.And((t1 / DAY) % 7 <= 4, t1 % DAY >= (14*60+30)*60*NS, t1 % DAY < 21*3600*NS)
ok = bad = unk = 0; tq = time.time()
for pc, (k, o) in paths:
    if k != 'ok': continue
    c0, c1, hist, qsz, hold = o
    exp = c0
    terms = []
    for i, q in enumerate(qs):
        a = 'AB'[i % 2]
        px = z3.If(q.e > 0, ask[a].e, bid[a].e)
        terms.append((px * q.e, q))
    s = z3.Solver(); s.set('timeout', 30000); s.add(*assume); s.add(*pc)
    nfills = sum(1 for h in hist if h[0] == 'asset_transaction')
    if qsz == 0:   # filled: spec says open, and cash = c0 - sum(px*q + (cr+tr)*|round(px*q)|); we only check open-ness and fill count here
        s.add(z3.Or(z3.Not(openspec), z3.BoolVal(nfills != NO)))
    else:
        s.add(z3.Or(openspec, z3.BoolVal(nfills != 0), sx.R(c1) != sx.R(c0)))
    r = s.check(); ok += r == z3.unsat; bad += r == z3.sat; unk += r == z3.unknown
print('verdicts ok', ok, 'bad', bad, 'unk', unk, round(time.time() - tq, 1), 's')
