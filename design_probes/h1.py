import warnings; warnings.simplefilter('ignore')
import sys, time, z3, numpy as np, pandas as pd, pytz
import symx3 as sx, symx2; symx2.install()
from qstrader import settings; settings.set_print_events(False)
from qstrader.broker.simulated_broker import SimulatedBroker
from qstrader.exchange.simulated_exchange import SimulatedExchange
from qstrader.broker.fee_model.percent_fee_model import PercentFeeModel
from qstrader.asset.universe.static import StaticUniverse
from qstrader.alpha_model.fixed_signals import FixedSignalsAlphaModel
from qstrader.system.qts import QuantTradingSystem
from qstrader.execution.order import Order
# floor/round as uninterpreted functions with instantiated axioms (congruence across impl and reference)
FLOOR = z3.Function('floor_', z3.RealSort(), z3.IntSort()); ROUND0 = z3.Function('round0_', z3.RealSort(), z3.IntSort()); ROUND2 = z3.Function('round2_', z3.RealSort(), z3.RealSort())
def _floor(s):
    if s.is_int: return s
    n = FLOOR(s.e); symx2.EX.assume(z3.And(z3.ToReal(n) <= s.e, s.e < z3.ToReal(n) + 1)); return sx.Sym(z3.ToReal(n), True)
def _round(s, nd=None):
    if s.is_int: return s
    if not nd:
        n = ROUND0(s.e); symx2.EX.assume(z3.And(2 * (s.e - z3.ToReal(n)) <= 1, 2 * (z3.ToReal(n) - s.e) <= 1)); return sx.Sym(z3.ToReal(n), True)
    r = ROUND2(s.e); symx2.EX.assume(z3.And(200 * (s.e - r) <= 1, 200 * (r - s.e) <= 1)); return sx.Sym(r)
sx.Sym.__floor__ = _floor; sx.Sym.__round__ = _round
NA = int(sys.argv[1]); A = ['EQ:A', 'EQ:B'][:NA]
U = pytz.UTC; t0 = pd.Timestamp('2020-01-06 14:30', tz=U); tc = pd.Timestamp('2020-01-08 21:00', tz=U); tn = pd.Timestamp('2020-01-09 14:30', tz=U)
cash0 = sx.sym_real('cash0'); b = sx.sym_real('buf'); f = sx.sym_real('fee')
h = {a: sx.sym_int('h' + a[-1]) for a in A}; p0 = {a: sx.sym_real('p0' + a[-1]) for a in A}
pc_ = {a: sx.sym_real('pc' + a[-1]) for a in A}; pn = {a: sx.sym_real('pn' + a[-1]) for a in A}; w = {a: sx.sym_real('w' + a[-1]) for a in A}
ws = sum((x.e for x in w.values()), z3.RealVal(0))
assume = [cash0.e > 0, cash0.e < 10**7] + [cash0.e > 2 * sum((p0[a].e * h[a].e for a in A), z3.RealVal(0))] + [ b.e >= 0, b.e <= 1, f.e >= 0, f.e <= z3.Q(1, 10), ws > z3.Q(1, 100)] + [x.e > 0 for x in h.values()] + [x.e < 10**5 for x in h.values()] \
    + [z3.And(x.e > 1, x.e < 1000) for d in (p0, pc_, pn) for x in d.values()] + [x.e >= 0 for x in w.values()]
now = {'t': t0}
class DH:
    def px(s, dt, a): return {t0: p0, tc: pc_, tn: pn}[dt][a]
    def get_asset_latest_bid_ask_price(s, dt, a): return (s.px(dt, a), s.px(dt, a))
    def get_asset_latest_ask_price(s, dt, a): return s.px(dt, a)
    def get_asset_latest_mid_price(s, dt, a): return s.px(dt, a)
ex = sx.Explorer(timeout_ms=10000, assume=assume); sx.EX = ex; symx2.EX = ex
def absr(x): return x if x >= 0 else -x
def reference(cash, hold):
    """documented rules, written independently"""
    equity = cash + sum(hold[a] * pc_[a] for a in A)
    tot = sum(w[a] for a in A)
    target = {}
    for a in A:
        share = (1 - b) * equity * (w[a] / tot)
        target[a] = (share * (1 - f) / pc_[a]).__floor__()
    orders = [(a, target[a] - hold[a]) for a in sorted(A)]
    orders = [(a, q) for a, q in orders if q != 0]
    sells = [(a, q) for a, q in orders if q < 0]; buys = [(a, q) for a, q in orders if q > 0]
    fills = []
    for a, q in sells + buys:
        cons = round(pn[a] * q); com = f * absr(cons); cash = cash - (pn[a] * q + com); fills.append((a, q, pn[a], com))
    return fills, cash, target
def prog():
    dh = DH()
    br = SimulatedBroker(t0, SimulatedExchange(t0), dh, initial_funds=0.0, fee_model=PercentFeeModel(f, 0.0))
    br.subscribe_funds_to_account(cash0); br.create_portfolio('p'); br.subscribe_funds_to_portfolio('p', cash0)
    for a in A: br.submit_order('p', Order(t0, a, h[a]))
    br.update(t0)                     # builder: holdings h at prices p0 (cash may go negative)
    cash1 = br.get_portfolio_cash_balance('p')
    uni = StaticUniverse(A)
    qts = QuantTradingSystem(uni, br, 'p', dh, FixedSignalsAlphaModel(dict(w)), long_only=True, cash_buffer_percentage=b, submit_orders=True)
    br.update(tc); nh = len(br.portfolios['p'].history)
    qts(tc)
    assert len(br.portfolios['p'].history) == nh, 'filled at close'
    br.update(tn)
    port = br.portfolios['p']
    impl_fills = [(e.description.split()[2], e.debit, e.credit) for e in port.history[nh:]]
    impl_hold = {a: (br.get_portfolio_as_dict('p')[a]['quantity'] if a in br.get_portfolio_as_dict('p') else 0) for a in A}
    ref_fills, ref_cash, ref_target = reference(cash1, dict(h))
    return impl_fills, port.cash, impl_hold, ref_fills, ref_cash, ref_target
tt = time.time(); paths, left = ex.run_all(prog, budget_s=900)
from collections import Counter
print('assets', NA, 'paths', len(paths), 'left', left, 'queries', ex.queries, 'unknown', ex.unknown, 'explore', round(time.time() - tt, 1), Counter((k, str(o)[:70] if k != 'ok' else '') for _, (k, o) in paths))
ok = bad = unk = infeas = 0; tq = time.time(); worst = 0
for pc, (k, o) in paths:
    if k != 'ok': continue
    impl_fills, icash, ihold, rfills, rcash, rtarget = o
    s = z3.Solver(); s.set('timeout', 60000); s.add(*assume, *pc)
    viol = [sx.R(icash) != sx.R(rcash), z3.BoolVal(len(impl_fills) != len(rfills))] + [sx.R(ihold[a]) != sx.R(rtarget[a]) for a in A]
    viol += [z3.BoolVal(x[0] != y[0].upper()) for x, y in zip(impl_fills, rfills)]
    for v in viol:
        s.push(); s.add(v); t1 = time.time(); r = s.check(); worst = max(worst, time.time() - t1); s.pop()
        ok += r == z3.unsat; bad += r == z3.sat; unk += r == z3.unknown
        if r == z3.sat and bad <= 2: print('CEX clause', str(v)[:300])
print(' obligations ok', ok, 'bad', bad, 'unk', unk, 'check_s', round(time.time() - tq, 1), 'worst', round(worst, 1))
