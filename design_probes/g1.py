import warnings; warnings.simplefilter('ignore')
import time, z3, numpy as np, pandas as pd, datetime
import symx2 as sx; sx.install()
from qstrader import settings; settings.set_print_events(False)
from collections import Counter

# ---------- C14: real run() loop on symbolic clock with recording stubs
from qstrader.trading.backtest import BacktestTradingSession
from qstrader.simulation.event import SimulationEvent
class TS:
    def __init__(s, t): s.t = t
    def __lt__(s, o): return sx.SymBool(s.t < o.t)
    def __le__(s, o): return sx.SymBool(s.t <= o.t)
    def __gt__(s, o): return sx.SymBool(s.t > o.t)
    def __ge__(s, o): return sx.SymBool(s.t >= o.t)
    def __eq__(s, o): return sx.SymBool(s.t == o.t)
    __hash__ = None
K = 3
t = [z3.Int('t%d' % i) for i in range(K)]; s_ = [z3.Int('s%d' % i) for i in range(2)]; bi = z3.Int('burn')
assume = [t[i] < t[i + 1] for i in range(K - 1)] + [s_[0] < s_[1]]
ex = sx.Explorer(assume=assume); sx.EX = ex
import itertools
tot_paths = 0; bad = 0; t0 = time.time()
for types in itertools.product(['market_open', 'market_close'], repeat=K):
  for use_burn in (False, True):
    def prog():
        log = []
        class Br:
            def update(s, dt): log.append(('bu', dt))
            def get_account_total_equity(s): return {'master': len(log)}
        class Sg:
            def update(s, dt): log.append(('sg', dt))
        def qts(dt, stats=None): log.append(('qts', dt)); stats['target_allocations'].append({'Date': dt})
        ses = object.__new__(BacktestTradingSession)
        ses.sim_engine = [SimulationEvent(TS(t[i]), types[i]) for i in range(K)]
        ses.broker = Br(); ses.signals = Sg(); ses.qts = qts
        ses.rebalance_schedule = [TS(s_[0]), TS(s_[1])]
        ses.burn_in_dt = TS(bi) if use_burn else None
        ses.equity_curve = []; ses.target_allocations = []
        ses.run()
        return log, ses.equity_curve, ses.target_allocations
    paths, left = ex.run_all(prog)
    tot_paths += len(paths)
    for pc, (k, o) in paths:
        assert k == 'ok', o
        log, eq, ta = o
        s = z3.Solver(); s.add(*assume, *pc)
        viol = []
        for i in range(K):
            insched = z3.Or(t[i] == s_[0], t[i] == s_[1]); okb = z3.BoolVal(True) if not use_burn else t[i] >= bi
            called = any(k_ == 'qts' and d.t.eq(t[i]) for k_, d in log)
            viol.append(z3.And(insched, okb) != called)
            eqd = any(d.t.eq(t[i]) for d, _ in eq)
            viol.append(z3.And(z3.BoolVal(types[i] == 'market_close'), okb) != eqd)
        s.add(z3.Or(*viol)); bad += s.check() != z3.unsat
print('C14 loop: shapes', 2**K * 2, 'paths', tot_paths, 'violating', bad, 'wall', round(time.time() - t0, 1))

# ---------- C16: real signal classes on symbolic streams
from qstrader.signals.momentum import MomentumSignal
from qstrader.signals.sma import SMASignal
from qstrader.signals.vol import VolatilitySignal
from qstrader.asset.universe.static import StaticUniverse
def _sqrt(s):
    r = sx.EX._nv('sqrt', z3.RealSort()); sx.EX.assume(z3.And(r >= 0, r * r == s.e)); return sx.Sym(r)
sx.Sym.sqrt = _sqrt
P = [sx.sym_real('p%d' % i) for i in range(5)]
ex = sx.Explorer(assume=[p.e > 0 for p in P]); sx.EX = ex
def prog2():
    u = StaticUniverse(['A']); m = MomentumSignal(None, u, [2, 3]); a = SMASignal(None, u, [2, 3]); v = VolatilitySignal(None, u, [2])
    out = []
    for p in P:
        for sg in (m, a, v): sg.append('A', p)
        out.append((m('A', 2), m('A', 3), a('A', 2), a('A', 3), v('A', 2)))
    return out
t0 = time.time(); paths, _ = ex.run_all(prog2)
print('C16: paths', len(paths), Counter(k for _, (k, _) in paths), round(time.time() - t0, 2), 's')
pc, (k, out) = paths[0]
if k != 'ok': print('   ', out)
else:
    s = z3.Solver(); s.add(*[p.e > 0 for p in P], *pc)
    m2, m3, a2, a3, v2 = out[-1]
    var = ((P[3].e/P[2].e - 1) - ((P[3].e/P[2].e - 1) + (P[4].e/P[3].e - 1))/2)**2/2 + ((P[4].e/P[3].e - 1) - ((P[3].e/P[2].e - 1) + (P[4].e/P[3].e - 1))/2)**2/2
    s.add(z3.Or(sx.R(m2) != P[4].e/P[2].e - 1, sx.R(m3) != P[4].e/P[1].e - 1, sx.R(a2) != (P[3].e + P[4].e)/2, sx.R(a3) != (P[2].e+P[3].e+P[4].e)/3,
                (sx.R(v2) / sx.R(float(np.sqrt(252))))**2 != var))
    t1 = time.time(); print('   definitions hold at step 5:', s.check() == z3.unsat, round(time.time() - t1, 2), 's')
