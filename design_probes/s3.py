import warnings; warnings.simplefilter('ignore')
import sys, time, re, numpy as np, pandas as pd, pytz, z3
import symx3 as sx, symx2; symx2.install()
from qstrader import settings; settings.set_print_events(False)
import qstrader.data.daily_bar_csv as dbc
from qstrader.data.daily_bar_csv import CSVDailyBarDataSource
from qstrader.data.backtest_data_handler import BacktestDataHandler
from qstrader.asset.universe.static import StaticUniverse
from qstrader.alpha_model.fixed_signals import FixedSignalsAlphaModel
from qstrader.trading.backtest import BacktestTradingSession
from qstrader.broker.fee_model.percent_fee_model import PercentFeeModel
MODE = sys.argv[1]; GAP = len(sys.argv) > 2
ND = 8
days = pd.bdate_range('2020-01-06', periods=ND)
assets = ['EQ:A', 'EQ:B'] if MODE == 'latestart' else ['EQ:A']
assume = []; DAYOF = {}
def var(n, i):
    v = sx.sym_real(n); assume.extend([v.e > 1, v.e < 1000]); DAYOF[n] = i; return v
frames = {}
for a in assets:
    first = 4 if (MODE == 'latestart' and a == 'EQ:B') else 0          # B's bars start on day 4 (after the first rebalance)
    o = [var('%s_o%d' % (a[3:], i), i) for i in range(first, ND)]; c = [var('%s_c%d' % (a[3:], i), i) for i in range(first, ND)]
    if GAP: o = [x for i, x in enumerate(o) if i != 3]; c = [x for i, x in enumerate(c) if i != 3]
    frames[a] = pd.DataFrame({'Open': pd.Series(o, dtype=object).values, 'Close': pd.Series(c, dtype=object).values}, index=pd.DatetimeIndex([d for i, d in enumerate(days[first:]) if not (GAP and i == 3)], tz='UTC', name='Date'))
if MODE == 'nearest':   # injected look-ahead mutant: nearest instead of pad
    src = open(dbc.__file__).read().replace("method='pad'", "method='nearest'")
    ns = {}; exec(compile(src, dbc.__file__, 'exec'), ns); CSV = ns['CSVDailyBarDataSource']
else: CSV = CSVDailyBarDataSource
ds = object.__new__(CSV); ds.adjust_prices = False; ds.asset_bar_frames = frames
ds.asset_bid_ask_frames = ds._convert_bars_into_bid_ask_dfs()
ex = sx.Explorer(timeout_ms=5000, assume=assume); sx.EX = ex; symx2.EX = ex
start = pd.Timestamp('2020-01-06 00:00', tz=pytz.UTC); end = pd.Timestamp(days[-1].strftime('%Y-%m-%d') + ' 23:59', tz=pytz.UTC)
w = {a: 1.0 / len(assets) for a in assets}
def prog():
    CSV.get_bid.cache_clear(); CSV.get_ask.cache_clear()
    uni = StaticUniverse(assets); dh = BacktestDataHandler(uni, data_sources=[ds])
    s = BacktestTradingSession(start, end, uni, FixedSignalsAlphaModel(w), rebalance='weekly', rebalance_weekday='WED', long_only=True,
                               cash_buffer_percentage=0.05, data_handler=dh, fee_model=PercentFeeModel(0.001, 0.0))
    marks = []                       # (event time, len(pc)) to attribute path-condition conjuncts to events
    orig = s.broker.update
    def upd(dt): marks.append((dt, len(ex.pc))); return orig(dt)
    s.broker.update = upd
    try: s.run(); err = None
    except ValueError as e: err = (marks[-1][0], str(e)[:60])
    hist = s.broker.portfolios['000001'].history
    return list(s.equity_curve), [(h.dt, h.debit, h.credit, h.balance) for h in hist], marks, err
t0 = time.time(); paths, left = ex.run_all(prog, budget_s=600)
print(MODE, 'paths', len(paths), 'left', left, 'unknown', ex.unknown, 'wall', round(time.time() - t0, 1))
def names(e): return {str(d) for d in z3.z3util.get_vars(e)} if not isinstance(e, (int, float)) else set()
viol = 0; checked = 0; example = None
for pc, (k, o) in paths:
    if k != 'ok': print('  path', k, str(o)[:100]); continue
    eq, hist, marks, err = o
    outs = [(d, v) for d, v in eq] + [(d, x) for d, *xs in hist for x in xs]
    for d, v in outs:
        if not isinstance(v, sx.Sym): continue
        T = sum(1 for x in days if x.date() <= d.date()) - 1      # index of the output's day
        checked += 1
        fut = {n for n in names(v.e) if n in DAYOF and DAYOF[n] > T}
        if fut:
            viol += 1
            if example is None: example = (str(d), sorted(fut)[:4])
    # branch conditions taken while processing events up to day T
    for (dt, npc), nxt in zip(marks, marks[1:] + [(None, len(pc))]):
        T = sum(1 for x in days if x.date() <= dt.date()) - 1
        for cnd in pc[npc:nxt[1]]:
            checked += 1
            fut = {n for n in names(cnd) if n in DAYOF and DAYOF[n] > T}
            if fut:
                viol += 1
                if example is None: example = ('branch at ' + str(dt), sorted(fut)[:4])
    if err: print('  run ended with', err)
print('  terms checked', checked, 'depending on FUTURE bars:', viol, 'example:', example)
