import warnings; warnings.simplefilter('ignore')
import time, z3, numpy as np, pandas as pd
import matplotlib; matplotlib.use('Agg')
import symx3 as sx
from collections import Counter
def _sqrt(s):
    r = sx.EX._nv('sqrt', z3.RealSort()); sx.EX.assume(z3.And(r >= 0, r * r == s.e)); return sx.Sym(r)
sx.Sym.sqrt = _sqrt
POW = {}
def _pow(s, c):
    c = float(c); f = POW.setdefault(c, z3.Function('pow_%r' % c, z3.RealSort(), z3.RealSort())); return sx.Sym(f(s.e))
sx.Sym.__pow__ = _pow
class LogSym:
    def __init__(s, arg): s.arg = arg
    def __add__(s, o):
        if isinstance(o, LogSym): return LogSym(s.arg * o.arg)
        if isinstance(o, (int, float)) and o == 0: return s
        return NotImplemented
    __radd__ = __add__
    def exp(s): return s.arg
def tolog(v):
    if isinstance(v, LogSym): return v
    if isinstance(v, sx.Sym):
        if not (v > 0): raise sx.PathAbort('log<=0')
        return LogSym(v)
    return LogSym(sx.Sym(sx.R(v)))
class NPS:
    def __getattr__(s, k): return getattr(np, k)
    def zeros(s, n): a = np.empty(n, dtype=object); a[:] = 0; return a
    def log(s, x): return x.map(tolog) if isinstance(x, pd.Series) and x.dtype == object else np.log(x)
    def exp(s, x): return x.map(lambda v: v.exp() if isinstance(v, LogSym) else np.exp(v)) if isinstance(x, pd.Series) and x.dtype == object else np.exp(x)
    def mean(s, x): return np.mean(x.to_numpy()) if isinstance(x, pd.Series) and x.dtype == object else np.mean(x)
    def std(s, x): return np.std(x.to_numpy()) if isinstance(x, pd.Series) and x.dtype == object else np.std(x)
    def isnan(s, x): return False if isinstance(x, sx.Sym) else np.isnan(x)
import qstrader.statistics.performance as perf, qstrader.statistics.json_statistics as js, qstrader.statistics.tearsheet as ts
for m in (perf, js, ts): m.np = NPS()
js.JSONStatistics._calculate_returns_quantiles = lambda self, r: {}
js.JSONStatistics._calculate_returns_quantiles_hc = lambda self, q: []
N = 4
E = [sx.sym_real('e%d' % i) for i in range(N)]
ex = sx.Explorer(assume=[e.e > 0 for e in E], timeout_ms=20000); sx.EX = ex; import symx2; symx2.EX = ex
idx = [d.date() for d in pd.bdate_range('2019-12-30', periods=N)]
def prog():
    eq = pd.DataFrame({'Equity': pd.Series(E, dtype=object).values}, index=idx)
    t = ts.TearsheetStatistics(eq).get_results(eq.copy())
    alloc = pd.DataFrame({'EQ:A': [1.0] * N}, index=idx)
    j = js.JSONStatistics(eq.copy(), alloc).statistics['strategy']
    return t['sharpe'], t['max_drawdown'], t['max_drawdown_duration'], j['sharpe'], j['sortino'], j['cagr'], j['max_drawdown'], j['monthly_agg_returns'], j['yearly_agg_returns'], j['cum_returns']
t0 = time.time(); paths, left = ex.run_all(prog, budget_s=600)
print('paths', len(paths), 'left', left, Counter((k, str(o)[:90] if k != 'ok' else '') for _, (k, o) in paths), 'unknown', ex.unknown, round(time.time() - t0, 1), 's')
for pc, (k, o) in paths[:1]:
    if k == 'ok':
        tsh, tmd, tdur, jsh, jso, jc, jmd, jm, jy, jcum = o
        s = z3.Solver(); s.add(*[e.e > 0 for e in E], *pc)
        s.add(z3.Or(sx.R(tsh) != sx.R(jsh), sx.R(tmd) != sx.R(jmd))); print(' tearsheet == json (sharpe, maxdd):', s.check() == z3.unsat)
        print(' cagr', jc.e if isinstance(jc, sx.Sym) else jc); print(' monthly', [(k_, z3.simplify(sx.R(v))) for k_, v in jm]); print(' yearly', [(k_, z3.simplify(sx.R(v))) for k_, v in jy])
        print(' sortino', type(jso).__name__)
