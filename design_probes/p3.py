import sys, time, z3, math
import pandas as pd
import symx, shim
shim.install()
import qstrader.broker.portfolio.position as P
from qstrader.broker.portfolio.position import Position
from qstrader.broker.transaction.transaction import Transaction
# floor/int stubs for position.transact: int(floor(q)) == 0
P.floor = lambda x: x.__floor__() if isinstance(x, symx.Sym) else math.floor(x)
import builtins
P.int = lambda x: x if isinstance(x, symx.Sym) else builtins.int(x)

DT = pd.Timestamp('2020-01-01', tz='UTC')
K = int(sys.argv[1]); INTQ = sys.argv[2] == 'int'
ex = symx.Explorer(timeout_ms=30000); symx.EX = ex
mk = symx.sym_int if INTQ else symx.sym_real
q = [mk(f'q{i}') for i in range(K)]
p = [symx.sym_real(f'p{i}') for i in range(K)]
c = [symx.sym_real(f'c{i}') for i in range(K)]
m = symx.sym_real('m')
assume = [m.e > 0] + [x.e > 0 for x in p] + [x.e >= 0 for x in c] + [x.e != 0 for x in q]
ex.solver.add(*assume)

def prog():
    pos = Position.open_from_transaction(Transaction('A', q[0], DT, p[0], 'x', commission=c[0]))
    for i in range(1, K):
        if pos.net_quantity == 0: raise symx.PathAbort()   # handler would delete the position
        pos.transact(Transaction('A', q[i], DT, p[i], 'y', commission=c[i]))
    pos.update_current_price(m, DT)
    cash = 0
    for i in range(K): cash = cash - (p[i]*q[i] + c[i])
    return (pos.total_pnl, pos.realised_pnl + pos.unrealised_pnl, pos.market_value + cash, pos.net_quantity, sum(q[1:], q[0]))
t0 = time.time()
paths = ex.run_all(prog)
print('paths', len(paths), 'queries', ex.queries, 'unknown', ex.unknown, 'explore_s', round(time.time()-t0,2))
ok = bad = unk = 0
for pc, (kind, out) in paths:
    if kind != 'ok':
        print('  path', kind, out if kind=='raise' else ''); continue
    tot, ru, ledger, nq, sq = out
    s = z3.Solver(); s.set('timeout', 60000); s.add(*assume); s.add(*pc)
    s.add(z3.Or(symx.R(tot) != symx.R(ledger), symx.R(tot) != symx.R(ru), symx.R(nq) != symx.R(sq)))
    t1 = time.time(); r = s.check()
    if r == z3.unsat: ok += 1
    elif r == z3.sat: bad += 1; print('CEX', s.model())
    else: unk += 1
    print('  path verdict', r, round(time.time()-t1,2), 's; decisions', len(pc))
print('ok', ok, 'bad', bad, 'unk', unk, 'total_s', round(time.time()-t0,2))
