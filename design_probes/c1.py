from qstrader.signals.buffer import AssetPriceBuffers
from qstrader.signals.momentum import MomentumSignal

def keys_injective(a1: str, l1: int, a2: str, l2: int) -> bool:
    """
    pre: len(a1) <= 4 and len(a2) <= 4
    pre: 0 < l1 < 1000 and 0 < l2 < 1000
    pre: (a1, l1) != (a2, l2)
    post: _ == True
    """
    return AssetPriceBuffers._asset_lookback_key(a1, l1) != AssetPriceBuffers._asset_lookback_key(a2, l2)

def keys_witness(a1: str, l1: int, a2: str, l2: int) -> bool:
    """
    pre: len(a1) <= 4 and len(a2) <= 4
    pre: 0 < l1 < 1000 and 0 < l2 < 1000
    post: _ == False
    """
    return AssetPriceBuffers._asset_lookback_key(a1, l1) != AssetPriceBuffers._asset_lookback_key(a2, l2)
