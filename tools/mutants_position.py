P = 'qstrader/broker/portfolio/position.py'
MUTANTS = [
 ('pos_comm_wrong_side', 'C03', P, "((self.sell_quantity / self.buy_quantity) * self.buy_commission) -\n                    self.sell_commission", "((self.buy_quantity / self.sell_quantity) * self.buy_commission) -\n                    self.sell_commission"),
 ('pos_realised_net', 'C03', P, "((self.avg_sold - self.avg_bought) * self.sell_quantity) -", "((self.avg_sold - self.avg_bought) * self.net_quantity) -"),
 ('pos_avg_nocomm', 'C03', P, "return (self.avg_bought * self.buy_quantity + self.buy_commission) / self.buy_quantity", "return (self.avg_bought * self.buy_quantity) / self.buy_quantity"),
 ('pos_avgsold_buyqty', 'C03', P, "self.avg_sold = ((self.avg_sold * self.sell_quantity) + (quantity * price)) / (self.sell_quantity + quantity)", "self.avg_sold = ((self.avg_sold * self.buy_quantity) + (quantity * price)) / (self.buy_quantity + quantity)"),
 ('pos_short_comm_sign', 'C03', P, "return (self.avg_sold * self.sell_quantity - self.sell_commission) / self.sell_quantity", "return (self.avg_sold * self.sell_quantity + self.sell_commission) / self.sell_quantity"),
 ('pos_flat_nocomm', 'C03', P, "            return self.net_incl_commission", "            return self.net_total"),
 ('pos_mark_not_set', 'C03', P, "        self.update_current_price(transaction.price, transaction.dt)\n", "        self._check_set_dt(transaction.dt)\n"),
 ('pos_sellcomm_to_buy', 'C03', P, "        self.sell_commission += commission", "        self.buy_commission += commission"),
]
