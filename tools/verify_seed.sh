#!/bin/bash
# verify a sub-agent's seeded change in its scratch worktree and copy it to /verif/seeded/<name>/
# usage: tools/verify_seed.sh <worktree> <name> <property>
WT=$1; NAME=$2; PROP=$3
set -u
cd $WT || exit 2
# make sure the worktree holds exactly the recorded patch
git checkout -q -- qstrader 2>/dev/null; git stash list >/dev/null
if ! git apply --check _seed/patch.diff 2>/dev/null; then echo "PATCH DOES NOT APPLY"; exit 2; fi
D0=$(PYTHONPATH=$WT timeout 600 /venv/bin/python _seed/demo.py >/tmp/seed_demo0_$NAME.log 2>&1; echo $?)
git apply _seed/patch.diff
T=$(timeout 900 /venv/bin/python -m pytest -q -p no:cacheprovider 2>&1 | tail -1)
D1=$(PYTHONPATH=$WT timeout 600 /venv/bin/python _seed/demo.py >/tmp/seed_demo1_$NAME.log 2>&1; echo $?)
echo "$NAME: demo-without=$D0 tests-with='$T' demo-with=$D1"
if [ "$D0" = "0" ] && [ "$D1" = "1" ] && echo "$T" | grep -q "151 passed"; then
  mkdir -p /verif/seeded/$NAME
  cp _seed/patch.diff _seed/demo.py /verif/seeded/$NAME/
  cp _seed/notes.md /verif/seeded/$NAME/notes.md 2>/dev/null
  python3 - <<PY
import json
json.dump(dict(property="$PROP", name="$NAME", source="independent sub-agent given only the property text and a scratch worktree",
  needs=open("$WT/_seed/notes.md").read()[:1500],
  verified=dict(tests_with_change="$T", demo_without_change_exit=$D0, demo_with_change_exit=$D1,
                how="tools/verify_seed.sh: patch applied in a scratch worktree outside /repo and /verif; pytest; demo.py with and without the patch")),
  open("/verif/seeded/$NAME/meta.json","w"), indent=1)
PY
  echo "KEPT /verif/seeded/$NAME"
else
  echo "REJECTED $NAME"; tail -5 /tmp/seed_demo0_$NAME.log /tmp/seed_demo1_$NAME.log
fi
