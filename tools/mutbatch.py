#!/usr/bin/env python3
"""Run a list of hand-made mutants (python file defining MUTANTS = [(name, prop, file, old, new), ...]) against the
checks, in parallel, each in its own scratch copy.  Construction-time tool only.
usage: tools/mutbatch.py <listfile.py> [--tier quick] [--jobs 3] [--filter regex]"""
import sys, os, re, subprocess, argparse, concurrent.futures as cf, runpy
ap = argparse.ArgumentParser(); ap.add_argument('list'); ap.add_argument('--tier', default='quick'); ap.add_argument('--jobs', type=int, default=3)
ap.add_argument('--filter', default='.'); ap.add_argument('--tests', action='store_true')
a = ap.parse_args()
M = runpy.run_path(a.list)['MUTANTS']
M = [m for m in M if re.search(a.filter, m[0] + ' ' + m[1])]
def one(m):
    name, prop, f, old, new = m[:5]
    cmd = [os.path.join(os.path.dirname(__file__), 'mut.py'), prop, f, old, new, '--tier', a.tier] + (['--tests'] if a.tests else [])
    r = subprocess.run(cmd, capture_output=True, text=True)
    out = r.stdout
    ex = re.findall(r'EXIT (\d+)', out)
    viol = re.findall(r'VIOLATION property=\S+ replay=\S+\s+\((.*?)\)', out)
    tests = re.findall(r'TESTS: (.*)', out)
    inc = re.findall(r'INCONCLUSIVE: (.*)', out)
    return name, prop, ex[-1] if ex else '?', viol[:2], tests, inc[:1], ('NOT FOUND' in out)
with cf.ThreadPoolExecutor(a.jobs) as ex:
    for name, prop, code, viol, tests, inc, nf in ex.map(one, M):
        status = {'1': 'CAUGHT', '0': 'MISSED', '2': 'INCONCLUSIVE'}.get(code, 'ERR' + code)
        if nf: status = 'OLD-TEXT-NOT-FOUND'
        print('%-14s %-4s %-28s %s %s %s' % (status, prop, name, '; '.join(viol)[:110], ' '.join(tests)[:40], (inc[0][:160] if inc and code != '1' else '')), flush=True)
