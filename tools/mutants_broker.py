BR = 'qstrader/broker/simulated_broker.py'
PF = 'qstrader/broker/portfolio/portfolio.py'
PH = 'qstrader/broker/portfolio/position_handler.py'
PO = 'qstrader/broker/portfolio/position.py'
EX = 'qstrader/exchange/simulated_exchange.py'
PFM = 'qstrader/broker/fee_model/percent_fee_model.py'
PE = 'qstrader/broker/portfolio/portfolio_event.py'
ST = 'qstrader/statistics/performance.py'
JS = 'qstrader/statistics/json_statistics.py'
MUTANTS = [
 # C01
 ('c01_master_not_debited', 'C01', BR, "        self.portfolios[portfolio_id].subscribe_funds(self.current_dt, amount)\n        self.cash_balances[self.base_currency] -= amount", "        self.portfolios[portfolio_id].subscribe_funds(self.current_dt, amount)"),
 ('c01_round_cash_stored', 'C01', PF, "        self.cash -= txn_total_cost\n", "        self.cash = round(self.cash - txn_total_cost, 2)\n"),
 ('c01_balance_before_debit', 'C01', PF, "                debit=round(txn_total_cost, 2), credit=0.0,\n                balance=round(self.cash, 2)", "                debit=round(txn_total_cost, 2), credit=0.0,\n                balance=round(self.cash + txn_total_cost, 2)"),
 ('c01_agg_wrong_field', 'C01', BR, "            port_equity = self.get_portfolio_total_equity(\n                portfolio.portfolio_id\n            )", "            port_equity = self.get_portfolio_total_market_value(\n                portfolio.portfolio_id\n            )"),
 ('c01_event_unrounded', 'C01', PE, "debit=0.0, credit=round(credit, 2), balance=round(balance, 2)", "debit=0.0, credit=round(credit, 2), balance=round(balance, 1)"),
 # C02
 ('c02_not_deleted', 'C02', PH, "        if self.positions[asset].net_quantity == 0:\n            del self.positions[asset]", "        if False:\n            del self.positions[asset]"),
 ('c02_mark_bid', 'C02', BR, "mid_price = self.data_handler.get_asset_latest_mid_price(\n                    dt, asset\n                )", "mid_price = self.data_handler.get_asset_latest_bid_ask_price(\n                    dt, asset\n                )[0]"),
 ('c02_equity_no_cash', 'C02', PF, "        return self.total_market_value + self.cash", "        return self.total_market_value"),
 ('c02_fill_no_mark', 'C02', PO, "        self.update_current_price(transaction.price, transaction.dt)\n", "        self._check_set_dt(transaction.dt)\n"),
 # C04
 ('c04_close_inclusive', 'C04', EX, "dt.time() < self.close_dt", "dt.time() <= self.close_dt"),
 ('c04_weekday', 'C04', EX, "if dt.weekday() > 4:", "if dt.weekday() > 5:"),
 ('c04_sort_reversed', 'C04', BR, "sorted_orders = sorted(orders, key=lambda x: x[1].direction)", "sorted_orders = sorted(orders, key=lambda x: -x[1].direction)"),
 ('c04_drain_when_closed', 'C04', BR, "        if self.exchange.is_open_at_datetime(self.current_dt):\n            orders = []", "        if True:\n            orders = []"),
 ('c04_qty_scaled', 'C04', BR, "        scaled_quantity = order.quantity\n", "        scaled_quantity = order.quantity if est_total_cost <= total_cash else int(order.quantity / 2)\n"),
 ('c04_not_drained', 'C04', BR, "                        (portfolio, self.open_orders[portfolio].get())", "                        (portfolio, self.open_orders[portfolio].queue[0])"),
 # C05
 ('c05_bidask_swapped', 'C05', BR, "        if order.direction > 0:\n            price = bid_ask[1]\n        else:\n            price = bid_ask[0]", "        if order.direction > 0:\n            price = bid_ask[0]\n        else:\n            price = bid_ask[1]"),
 ('c05_signed_commission', 'C05', PFM, "return self.commission_pct * abs(consideration)", "return self.commission_pct * consideration"),
 ('c05_unrounded', 'C05', BR, "consideration = round(price * order.quantity)", "consideration = price * order.quantity"),
 ('c05_tax_omitted', 'C05', PFM, "        return commission + tax", "        return commission"),
 ('c05_stale_dt', 'C05', BR, "        bid_ask = self.data_handler.get_asset_latest_bid_ask_price(\n            dt, order.asset\n        )", "        bid_ask = self.data_handler.get_asset_latest_bid_ask_price(\n            order.created_dt, order.asset\n        )"),
 ('c05_txn_created_dt', 'C05', BR, "            order.asset, scaled_quantity, self.current_dt,", "            order.asset, scaled_quantity, max(self.current_dt, order.created_dt) if False else order.created_dt,"),
 # C15
 ('c15_credit_before_time_check', 'C15', PF, "        if dt < self.current_dt:\n            raise ValueError(\n                'Subscription datetime", "        self.cash += 0.0 if amount < 0 else 0.0\n        if dt < self.current_dt and False:\n            raise ValueError(\n                'Subscription datetime"),
 ('c15_wrong_exception', 'C15', BR, "        if amount < 0:\n            raise ValueError(\n                \"Cannot debit negative amount: \"", "        if amount < 0:\n            raise KeyError(\n                \"Cannot debit negative amount: \""),
 ('c15_silent_clamp', 'C15', BR, "        if amount > self.cash_balances[self.base_currency]:\n            raise ValueError(\n                \"Not enough cash in the broker account to \"", "        if amount > self.cash_balances[self.base_currency]:\n            amount = self.cash_balances[self.base_currency]\n        if False:\n            raise ValueError(\n                \"Not enough cash in the broker account to \""),
 ('c15_dup_portfolio_overwrite', 'C15', BR, "        if portfolio_id_str in self.portfolios.keys():\n            raise ValueError(", "        if False:\n            raise ValueError("),
 # C17
 ('c17_dd_first_value', 'C17', ST, "    perf[\"Drawdown\"] = (hwm - returns) / hwm", "    perf[\"Drawdown\"] = (returns.iloc[0] - returns) / returns.iloc[0]"),
 ('c17_sample_dev', 'C17', ST, "return np.sqrt(periods) * (np.mean(returns)) / np.std(returns)\n\n\ndef create_sortino", "return np.sqrt(periods) * (np.mean(returns)) / np.std(returns, ddof=1)\n\n\ndef create_sortino"),
 ('c17_cagr_inverted', 'C17', ST, "    return (equity.iloc[-1] ** (1.0 / years)) - 1.0", "    return (equity.iloc[-1] ** years) - 1.0"),
 ('c17_month_only', 'C17', ST, "            [lambda x: x.year, lambda x: x.month]).apply(cumulate_returns)", "            [lambda x: x.month]).apply(cumulate_returns)"),
 ('c17_undo_fix', 'C17', ST, "    hwm[0] = returns.iloc[0]\n", ""),
 ('c17_sortino_all', 'C17', ST, "np.std(returns[returns < 0])", "np.std(returns[returns <= 0])"),
]
