#!/usr/bin/env python3
"""Regenerates /verif/MANIFEST.json from the table below (kept in one place so it is always valid)."""
import json, os
ROOT = os.path.dirname(os.path.dirname(os.path.abspath(__file__)))

TRUST = ('Trusted base: the own z3 proxy executor (vf/engine), z3 5.1, the shims and stub contracts of DESIGN.md 1.3 '
         '(validated on every run by replaying each path witness against the real float code), exact real arithmetic '
         'in place of IEEE doubles, and the structural bound named in the evidence file.')

CHECKS = {
    'C10': dict(
        text='Bounded symbolic model checking of the real DollarWeightedCashBufferedOrderSizer + fee models: every path for '
             'N<=2 (thorough 3) assets with all numeric inputs symbolic; z3 proves the per-asset affordability bounds, the total '
             'budget bound, integrality, rejection of every invalid input and acceptance of every valid one. A bounded '
             'all-inputs verdict is the right level: the property is a universally quantified arithmetic bound over a loop-free kernel per asset.',
        design='3/C10', technique='symbolic execution of the real sizer on z3 proxies; per-path SMT validity queries (z3 NRA + uninterpreted floor)'),
}

NOT_APPLICABLE = [
    dict(property_id='C12', reason='the only code under the property is pandas calendar arithmetic (date_range/BDay on int64 indexes), which cannot be executed or encoded symbolically within reach; with concrete dates nothing is left for a solver to decide (DESIGN.md section 4)'),
    dict(property_id='C13', reason='the schedule classes are pandas date_range/bdate_range/BusinessDay arithmetic plus string->Timestamp re-parsing; no arithmetic of qstrader itself is left to encode; the session-side membership test is decided under C14 (DESIGN.md section 4)'),
]


def main():
    checks = []
    for pid in sorted(CHECKS):
        c = CHECKS[pid]
        checks.append(dict(
            property_id=pid,
            quick_cmd='./vcheck run %s --tier quick' % pid,
            thorough_cmd='./vcheck run %s --tier thorough' % pid,
            evidence_file='/verif/evidence/%s.json' % pid,
            replay_cmd_template='./vcheck replay {path}',
            engine='vf-symx',
            level_claimed=dict(category='model_checking', text=c['text'], design_ref='DESIGN.md section ' + c['design']),
            level_note=c.get('note', TRUST),
            technique=c['technique'],
        ))
    claimed = set(CHECKS)
    na = list(NOT_APPLICABLE)
    pending = [json.loads(l)['id'] for l in open(os.path.join(ROOT, 'properties.jsonl'))]
    for pid in pending:
        if pid not in claimed and pid not in {n['property_id'] for n in na}:
            na.append(dict(property_id=pid, reason='check under construction in this session: not claimed until its harness runs clean on the unchanged tree'))
    m = dict(
        version=1,
        setup_cmd='./setup.sh',
        hooks=dict(guard='QSTRADER_VERIF', enable='no hooks are needed: the checks drive the unmodified code from outside (module-level shims are installed at run time by vf/engine/shims.py)',
                   baseline_off_cmd='cd /repo && /venv/bin/python -m pytest -ra -q -p no:cacheprovider --timeout=900 --continue-on-collection-errors',
                   source_commits=[], add_only=True),
        engines=[dict(name='vf-symx', path='vf/engine', serves_properties=sorted(claimed),
                      kind_free_text='own symbolic executor: z3-backed proxy values through the real qstrader/pandas/numpy code, DFS path exploration by re-execution, per-path SMT validity queries, counterexample replay on the real float code'),
                 dict(name='crosshair+cvc5', path='vf/props/c16.py', serves_properties=['C16'] if 'C16' in claimed else [],
                      kind_free_text='CrossHair 0.0.110 and the cvc5 binary for the string kernel (buffer key injectivity)')],
        checks=checks,
        notes='All checks: exit 0 pass, 1 VIOLATION (replayed on the real float code first), 2 inconclusive (never a pass). Known findings: known_findings.json.',
        not_applicable=na,
    )
    json.dump(m, open(os.path.join(ROOT, 'MANIFEST.json'), 'w'), indent=1)
    print('MANIFEST.json: %d checks, %d not applicable' % (len(checks), len(na)))


if __name__ == '__main__':
    main()
