#!/usr/bin/env python3
"""Regenerates /verif/MANIFEST.json from the table below (kept in one place so it is always valid)."""
import json, os
ROOT = os.path.dirname(os.path.dirname(os.path.abspath(__file__)))

TRUST = ('Trusted base: the own z3 proxy executor (vf/engine), z3 5.1, the shims and stub contracts of DESIGN.md 1.3 '
         '(validated on every run by replaying each path witness against the real float code), exact real arithmetic '
         'in place of IEEE doubles, and the structural bound named in the evidence file.')

SYMX = 'symbolic execution of the real code on z3-backed proxy values (own executor), exhaustive DFS path exploration within the stated bound, per-path SMT validity queries (z3; nonlinear real/integer arithmetic with uninterpreted floor/round/sqrt), counterexamples replayed on the real float code'

CHECKS = {
    'C01': dict(
        text='Bounded symbolic model checking of the real SimulatedBroker/Portfolio/PortfolioEvent code: a symbolic reachable state is built through the public API '
             '(<=2 portfolios, <=2 assets, symbolic transfers, fills and pending orders, symbolic clock) and ONE operation of every kind with symbolic arguments is executed; z3 proves the delta '
             'specification of each operation (cash moves exactly by transfers and fill costs, transfers are zero-sum, nothing else changes, history events carry the true amounts rounded to cents, '
             'account totals equal the per-portfolio sums). One step from every builder state + induction covers histories of any length within the structural bound; '
             'the thorough tier adds genuinely multi-step symbolic histories (2-4 operations, refusals included) as a guard on that argument.',
        design='3/C01, 3.0, 8', technique=SYMX + '; inductive one-step delta specifications with a ghost ledger'),
    'C02': dict(
        text='Same harness: after the builder and after every update z3 proves reported quantity = signed sum of fills, reported iff non-zero, market value = quantity x most recent price '
             '(fill or mark, whichever came last), total = sum, equity = cash + market value, for symbolic fills, quotes and instants; plus the real Portfolio/PositionHandler driven '
             'directly by ladders of 3 (thorough 4) fill/mark steps on two assets, checked after every step (close-and-reopen, flips).',
        design='3/C02, 3.0, 8', technique=SYMX + '; ghost ledger of fills and marks'),
    'C03': dict(
        text='k-fill ladders (k<=3, thorough 4: every sign pattern of the fills and of the running net quantity) and one inductive step from an arbitrary valid Position on the real Position/Transaction '
             'classes with integer quantities and real prices/commissions; z3 proves the P&L identities of the statement as rational identities on every path.',
        design='3/C03, 8', technique=SYMX + '; ladder enumeration + inductive step on the ledger invariant'),
    'C04': dict(
        text='Real broker queue + real SimulatedExchange on a symbolic nanosecond clock: for every instant (boundaries 14:30:00.000000000 / 20:59:59.999999999 / 21:00, weekends are values of the clock) z3 proves '
             'orders fill iff the exchange-hours predicate of the statement holds, exactly once, in full, sells before buys, same side in submission order; otherwise the queue is untouched; submit changes only the queue.',
        design='3/C04, 3.0, 8', technique=SYMX + '; symbolic time as integer nanoseconds'),
    'C05': dict(
        text='On the same update steps z3 proves every fill is stamped with the update time, priced at that call\'s ask (buy) / bid (sell), charged (commission+tax rate) x |round(price x quantity)| '
             '(0 under the zero model), never negative, and that the cash debit is price x quantity + commission; quotes are requested for the update time.',
        design='3/C05, 3.0, 8', technique=SYMX + '; stub data handler with symbolic bid != ask'),
    'C06': dict(
        text='Lookup: the real get_bid/get_ask (+ real BacktestDataHandler) over a contract stub of the pandas index with symbolic row instants and query instant: z3 proves "value of the last row at or before t, NaN if none". '
             'Frames: the real bar->bid/ask conversion through real pandas on symbolic prices for every row order, missing-cell pattern and adjustment mode. Handler: first non-NaN source, mid = (bid+ask)/2.',
        design='3/C06, 8', technique=SYMX + '; pandas index contract stub validated against a real DatetimeIndex on every replayed path'),
    'C07': dict(
        text='Whole real BacktestTradingSession.run() on a symbolic market (1-2 assets, <=8 business days): all paths; per path and cut day T z3 decides that no output or decision up to T can be changed by rewriting later bars '
             '(two-market obligation) and that outputs up to T are unchanged on frames truncated after T. Counterexamples are pairs of markets replayed through two real float backtests.',
        design='3/C07, 8', technique=SYMX + '; 2-safety (two-market) obligations by substitution of future variables'),
    'C08': dict(
        text='Differential bounded model checking: the real session against an independent reference model of the documented rules (vf/props/reference.py) over the same symbolic market; '
             'z3 proves fills (time, asset, quantity, price, commission, sells first), final cash/holdings and daily equity equal on every path; floor/round are shared uninterpreted functions.',
        design='3/C08, 8', technique=SYMX + '; differential against a reference model'),
    'C09': dict(
        text='Real PCM + optimiser + universe + alpha model + sizers + execution handler + broker with explorer-chosen held/in-universe/weighted booleans per asset and symbolic holdings, weights, prices, cash: '
             'orders are exactly target minus held over the union set (no zero, no duplicate, ascending), fills reach the target, unweighted holdings are liquidated, the allocation row covers exactly that set.',
        design='3/C09, 8', technique=SYMX),
    'C10': dict(
        text='Every path of the real DollarWeightedCashBufferedOrderSizer + fee models for N<=2 (thorough 3) assets with all numeric inputs symbolic; z3 proves the per-asset affordability bounds, the total '
             'budget bound, integrality, rejection of every invalid input and acceptance of every valid one.',
        design='3/C10', technique=SYMX),
    'C11': dict(
        text='Every path of the real LongShortLeveragedOrderSizer + fee models for N<=2 (thorough 3) assets: integrality, sign agreement, truncation toward zero, largest affordable to within one currency unit, '
             'gross exposure bound, rejection of non-positive leverage / NaN price.',
        design='3/C11', technique=SYMX),
    'C14': dict(
        text='The real run() loop on a symbolic clock (<=3, thorough 4 events of any type, symbolic schedule and burn-in) against recording stubs, plus whole sessions: construction runs exactly at admitted scheduled '
             'instants, one equity point per close at/after burn-in read after the broker update, fills only at opens after the first admitted rebalance; the real get_target_allocations() '
             'on every pattern of changing weight vectors (chosen by input booleans) and burn-in cut.',
        design='3/C14, 8', technique=SYMX + '; symbolic time'),
    'C15': dict(
        text='Every refusable request kind on symbolic reachable broker/portfolio states with arguments ranging over valid and invalid regions: a refusal is the documented exception type, happens exactly for invalid '
             'requests and leaves every listed piece of state term-for-term unchanged. Two known findings (update is not transactional) are reported as KNOWN-FINDING.',
        design='3/C15, 5, 8.4', technique=SYMX + '; before/after snapshots through the public getters'),
    'C16': dict(
        text='Real signal classes on symbolic price streams (2 assets, 2 lookbacks per object) through real pandas/numpy object kernels: momentum, SMA, volatility equal their trailing-window definitions at every step; '
             'SignalsCollection.update with symbolic entry/update instants; once-per-close cadence on the real session loop; buffer-key injectivity by CrossHair (bounded) and cvc5 (unbounded).',
        design='3/C16, 8', technique=SYMX + '; CrossHair 0.0.110 and cvc5 (QF_SLIA) for the string kernel'),
    'C17': dict(
        text='The real statistics pipeline (performance.py, tearsheet get_results, JSONStatistics) on an object-dtype equity column of z3 proxies, curve length <=4 (thorough 5) over week/month/year boundaries: returns, cumulative '
             'returns, period aggregates, drawdowns, max drawdown, duration, CAGR, Sharpe, Sortino equal their definitions; tearsheet = JSON; scaled curves satisfy the same k-free definitions.',
        design='3/C17, 8', technique=SYMX + '; exact log-domain algebra, uninterpreted sqrt/pow'),
    'C18': dict(
        text='Whole real sessions re-run on the same path with (i) the warm, previously used data-source object and arbitrary earlier queries, (ii) arbitrary iteration order of every set built in pcm.py/signal.py (all orders explored) '
             'and order ids sorting the other way, (iii) a fresh source object while the class-wide memo holds another source\'s answers: z3 proves fills, equity, allocations are the same terms. '
             'A fresh interpreter with another hash seed: the session is explored in separate interpreters under different PYTHONHASHSEED values, paths exported as SMT-LIB and joined pairwise (vf/props/hashseed.py).',
        design='3/C18, 8', technique=SYMX + '; nondeterministic set-iteration order chosen by solver-explored input booleans'),
    'C19': dict(
        text='Real universes, alpha model and optimisers on symbolic instants (entry = t is a value of the clock), and the real PCM + broker with a DynamicUniverse of symbolic entry instants: membership is inclusive, '
             'non-members get no weight/order/position/column, members get the signal; optimisers return exactly the given keys.',
        design='3/C19, 8', technique=SYMX + '; symbolic time'),
}

NOT_APPLICABLE = [
    dict(property_id='C12', reason='the only code under the property is pandas calendar arithmetic (date_range/BDay on int64 indexes), which cannot be executed or encoded symbolically within reach; with concrete dates nothing is left for a solver to decide (DESIGN.md section 4)'),
    dict(property_id='C13', reason='the schedule classes are pandas date_range/bdate_range/BusinessDay arithmetic plus string->Timestamp re-parsing; no arithmetic of qstrader itself is left to encode; the session-side membership test is decided under C14 (DESIGN.md section 4)'),
]


def main():
    checks = []
    for pid in sorted(CHECKS):
        c = CHECKS[pid]
        checks.append(dict(
            property_id=pid,
            quick_cmd='./vcheck run %s --tier quick' % pid,
            thorough_cmd='./vcheck run %s --tier thorough' % pid,
            evidence_file='/verif/evidence/%s.json' % pid,
            replay_cmd_template='./vcheck replay {path}',
            engine='vf-symx',
            level_claimed=dict(category='model_checking', text=c['text'], design_ref='DESIGN.md section ' + c['design']),
            level_note=c.get('note', TRUST),
            technique=c['technique'],
        ))
    claimed = set(CHECKS)
    na = list(NOT_APPLICABLE)
    pending = [json.loads(l)['id'] for l in open(os.path.join(ROOT, 'properties.jsonl'))]
    for pid in pending:
        if pid not in claimed and pid not in {n['property_id'] for n in na}:
            na.append(dict(property_id=pid, reason='check under construction in this session: not claimed until its harness runs clean on the unchanged tree'))
    m = dict(
        version=1,
        setup_cmd='./setup.sh',
        hooks=dict(guard='QSTRADER_VERIF', enable='no hooks are needed: the checks drive the unmodified code from outside (module-level shims are installed at run time by vf/engine/shims.py)',
                   baseline_off_cmd='cd /repo && /venv/bin/python -m pytest -ra -q -p no:cacheprovider --timeout=900 --continue-on-collection-errors',
                   source_commits=[], add_only=True),
        engines=[dict(name='vf-symx', path='vf/engine', serves_properties=sorted(claimed),
                      kind_free_text='own symbolic executor: z3-backed proxy values through the real qstrader/pandas/numpy code, DFS path exploration by re-execution, per-path SMT validity queries, counterexample replay on the real float code'),
                 dict(name='crosshair+cvc5', path='vf/props/c16.py', serves_properties=['C16'] if 'C16' in claimed else [],
                      kind_free_text='CrossHair 0.0.110 and the cvc5 binary for the string kernel (buffer key injectivity)')],
        checks=checks,
        notes='All checks: exit 0 pass, 1 VIOLATION (replayed on the real float code first), 2 inconclusive (never a pass). Known findings: known_findings.json.',
        not_applicable=na,
    )
    json.dump(m, open(os.path.join(ROOT, 'MANIFEST.json'), 'w'), indent=1)
    print('MANIFEST.json: %d checks, %d not applicable' % (len(checks), len(na)))


if __name__ == '__main__':
    main()
