PCM = 'qstrader/portcon/pcm.py'
DYN = 'qstrader/asset/universe/dynamic.py'
SS = 'qstrader/alpha_model/single_signal.py'
EW = 'qstrader/portcon/optimiser/equal_weight.py'
BT = 'qstrader/trading/backtest.py'
SC = 'qstrader/signals/signals_collection.py'
MOM = 'qstrader/signals/momentum.py'
SMA = 'qstrader/signals/sma.py'
VOL = 'qstrader/signals/vol.py'
BUF = 'qstrader/signals/buffer.py'
SIG = 'qstrader/signals/signal.py'
MUTANTS = [
 ('pcm_union_dropped', 'C09', PCM, "set(broker_assets).union(set(universe_assets))", "set(universe_assets)"),
 ('pcm_no_overlay', 'C09', PCM, "return {**zero_weights, **optimised_weights}", "return {**optimised_weights, **zero_weights}"),
 ('pcm_unsorted', 'C09', PCM, "for asset, asset_dict in sorted(\n                rebalance_portfolio.items(), key=lambda x: x[0]\n            )", "for asset, asset_dict in sorted(\n                rebalance_portfolio.items(), key=lambda x: x[0], reverse=True\n            )"),
 ('pcm_zero_orders', 'C09', PCM, 'if rebalance_portfolio[asset]["quantity"] != 0', 'if True'),
 ('pcm_stats_before_overlay', 'C09', PCM, "alloc_dict.update(full_weights)", "alloc_dict.update(optimised_weights)"),
 ('pcm_order_sign', 'C09', PCM, "order_qty = target_qty - current_qty", "order_qty = current_qty - target_qty"),
 ('pcm_skip_small', 'C09', PCM, 'if rebalance_portfolio[asset]["quantity"] != 0', 'if abs(rebalance_portfolio[asset]["quantity"]) > 1'),
 ('dyn_strict', 'C19', DYN, "dt >= asset_date", "dt > asset_date"),
 ('dyn_none_always', 'C19', DYN, "if asset_date is not None and dt >= asset_date", "if asset_date is None or dt >= asset_date"),
 ('alpha_full_map', 'C19', SS, "assets = self.universe.get_assets(dt)", "assets = list(getattr(self.universe, 'asset_dates', None) or self.universe.get_assets(dt))"),
 ('eq_weight_offby', 'C19', EW, "equal_weight = 1.0 / float(num_assets)", "equal_weight = 1.0 / float(num_assets + 1)"),
 ('burnin_dropped', 'C14', BT, "                if dt >= self.burn_in_dt:\n                    if self._is_rebalance_event(dt):", "                if True:\n                    if self._is_rebalance_event(dt):"),
 ('burnin_strict', 'C14', BT, "                if dt >= self.burn_in_dt:\n                    if self._is_rebalance_event(dt):", "                if dt > self.burn_in_dt:\n                    if self._is_rebalance_event(dt):"),
 ('equity_at_open', 'C14', BT, 'if event.event_type == "market_close":\n                if self.burn_in_dt is not None:', 'if event.event_type == "market_open":\n                if self.burn_in_dt is not None:'),
 ('equity_burnin_strict', 'C14', BT, "                    if dt >= self.burn_in_dt:\n                        self._update_equity_curve(dt)", "                    if dt > self.burn_in_dt:\n                        self._update_equity_curve(dt)"),
 ('reb_before_update', 'C14', BT, "            self.broker.update(dt)\n\n            # Update any signals", "            # Update any signals"),
 ('signals_every_event', 'C16', BT, 'if self.signals is not None and event.event_type == "market_close":', 'if self.signals is not None:'),
 ('mom_not_bumped', 'C16', MOM, "bumped_lookbacks = [lookback + 1 for lookback in lookbacks]", "bumped_lookbacks = [lookback for lookback in lookbacks]"),
 ('sma_maxlen', 'C16', BUF, "): deque(maxlen=lookback)", "): deque(maxlen=lookback + 1)"),
 ('vol_sample', 'C16', VOL, "return np.std(returns) * np.sqrt(252)", "return np.std(returns, ddof=1) * np.sqrt(252)"),
 ('shared_deque', 'C16', BUF, "        return {\n            AssetPriceBuffers._asset_lookback_key(\n                asset, lookback\n            ): deque(maxlen=lookback)\n            for lookback in self.lookbacks\n        }", "        d = deque(maxlen=max(self.lookbacks))\n        return {\n            AssetPriceBuffers._asset_lookback_key(\n                asset, lookback\n            ): d\n            for lookback in self.lookbacks\n        }"),
 ('coll_price_stale', 'C16', SC, "price = self.data_handler.get_asset_latest_mid_price(dt, asset)", "price = self.data_handler.get_asset_latest_mid_price(getattr(self, '_last', dt), asset); self._last = dt"),
 ('key_collision', 'C16', BUF, "return '%s_%s' % (asset, lookback)", "return '%s%s' % (asset, lookback)"),
 ('nonpos_price_ok', 'C16', BUF, "if price <= 0.0:", "if price < 0.0:"),
]
