#!/bin/bash
# run every registered check of a tier sequentially; summary in /tmp/runall_<tier>.txt
TIER=${1:-quick}; shift
PROPS=${@:-C01 C02 C03 C04 C05 C06 C07 C08 C09 C10 C11 C14 C15 C16 C17 C18 C19}
cd "$(dirname "$0")/.."
: > /tmp/runall_$TIER.txt
for P in $PROPS; do
  S=$(date +%s)
  timeout 4000 ./vcheck run $P --tier $TIER > /tmp/ra_${TIER}_$P.log 2>&1; RC=$?
  E=$(date +%s)
  if [ "$TIER" = "thorough" ]; then mkdir -p evidence_thorough; cp evidence/$P.json evidence_thorough/$P.json 2>/dev/null; fi
  echo "$P rc=$RC wall=$((E-S))s $(grep -v '^\[' /tmp/ra_${TIER}_$P.log | head -1 | cut -c1-160)" >> /tmp/runall_$TIER.txt
done
echo DONE >> /tmp/runall_$TIER.txt
