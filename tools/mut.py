#!/usr/bin/env python3
"""Mutation trial helper (construction-time only): copy /repo/qstrader to a scratch dir outside /repo and
/verif, apply one textual replacement, run a check against the copy via VERIF_REPO, delete the copy.
usage: tools/mut.py <PROP> <file-relative-to-repo> <old> <new> [--tier quick] [--tests] [--only regex]"""
import sys, os, shutil, subprocess, tempfile, argparse
ap = argparse.ArgumentParser()
ap.add_argument('prop'); ap.add_argument('file'); ap.add_argument('old'); ap.add_argument('new')
ap.add_argument('--tier', default='quick'); ap.add_argument('--tests', action='store_true'); ap.add_argument('--only')
ap.add_argument('--count', type=int, default=1)
a = ap.parse_args()
d = tempfile.mkdtemp(prefix='vmut_', dir='/tmp')
try:
    shutil.copytree('/repo/qstrader', d + '/qstrader')
    p = os.path.join(d, a.file)
    s = open(p).read()
    if s.count(a.old) < 1:
        print('OLD TEXT NOT FOUND'); sys.exit(3)
    s = s.replace(a.old, a.new, a.count)
    open(p, 'w').write(s)
    if a.tests:
        shutil.copytree('/repo/tests', d + '/tests')
        for f in ('setup.py', 'setup.cfg', 'pytest.ini', 'tox.ini', 'pyproject.toml'):
            if os.path.exists('/repo/' + f): shutil.copy('/repo/' + f, d)
        r = subprocess.run(['/venv/bin/python', '-m', 'pytest', '-q', '-x', '-p', 'no:cacheprovider', '--timeout=900'], cwd=d, capture_output=True, text=True, env=dict(os.environ, PYTHONPATH=d))
        print('TESTS:', r.stdout.strip().splitlines()[-1] if r.stdout.strip() else r.stderr[-300:])
    env = dict(os.environ, VERIF_REPO=d, VERIF_OUT=d)
    cmd = ['/verif/vcheck', 'run', a.prop, '--tier', a.tier] + (['--only', a.only] if a.only else [])
    r = subprocess.run(["timeout", os.environ.get("MUT_TIMEOUT", "900")] + cmd, env=env, capture_output=True, text=True)
    print(r.stdout[-3000:]); print(r.stderr[-1500:]); print('EXIT', r.returncode)
finally:
    shutil.rmtree(d, ignore_errors=True)
    # evidence written by the mutant run is not evidence: restore from git if tracked
