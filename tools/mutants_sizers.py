DW = 'qstrader/portcon/order_sizer/dollar_weighted.py'
LS = 'qstrader/portcon/order_sizer/long_short.py'
MUTANTS = [
 ('ls_floor_short', 'C11', LS, "else np.ceil(after_cost_dollar_weight)", "else np.floor(after_cost_dollar_weight)"),
 ('ls_round_int', 'C11', LS, "asset_quantity = int(\n                truncated_after_cost_dollar_weight / asset_price\n            )", "asset_quantity = round(\n                truncated_after_cost_dollar_weight / asset_price\n            )"),
 ('ls_lev_div', 'C11', LS, "gross_ratio = self.gross_leverage / gross_exposure", "gross_ratio = 1.0 / (self.gross_leverage * gross_exposure)"),
 ('ls_abs_sign', 'C11', LS, "asset: (weight * gross_ratio)", "asset: (np.abs(weight) * gross_ratio)"),
 ('ls_validator', 'C11', LS, "gross_leverage <= 0.0", "gross_leverage < 0.0"),
 ('ls_nonan', 'C11', LS, "if np.isnan(asset_price):", "if False:"),
 ('ls_fee_add', 'C11', LS, "after_cost_dollar_weight = pre_cost_dollar_weight - est_costs", "after_cost_dollar_weight = pre_cost_dollar_weight + est_costs"),
 ('ls_net_norm', 'C11', LS, "gross_exposure = sum(np.abs(weight) for weight in weights.values())", "gross_exposure = np.abs(sum(weight for weight in weights.values()))"),
 ('ls_floor_div', 'C11', LS, "asset_quantity = int(\n                truncated_after_cost_dollar_weight / asset_price\n            )", "asset_quantity = int(np.floor(\n                truncated_after_cost_dollar_weight / asset_price\n            ))"),
]
