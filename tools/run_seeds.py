#!/usr/bin/env python3
"""Run the registered checks against every kept seeded change (construction-time tool).
Each patch is applied to a scratch copy of /repo's qstrader outside /repo and /verif; the check runs against the copy via
VERIF_REPO (equivalent to `git -C /repo apply` + check + `git checkout`, without touching /repo while other checks run).
usage: tools/run_seeds.py [--tier quick] [--filter regex] [--props C01,C05]   -> writes seeded/RESULTS.json"""
import sys, os, re, json, shutil, subprocess, tempfile, argparse, time
ap = argparse.ArgumentParser(); ap.add_argument('--tier', default='quick'); ap.add_argument('--filter', default='.'); ap.add_argument('--also', default='')
a = ap.parse_args()
ROOT = os.path.dirname(os.path.dirname(os.path.abspath(__file__)))
resf = os.path.join(ROOT, 'seeded', 'RESULTS.json')
results = json.load(open(resf)) if os.path.exists(resf) else {}
for name in sorted(os.listdir(os.path.join(ROOT, 'seeded'))):
    d = os.path.join(ROOT, 'seeded', name)
    if not os.path.isdir(d) or not re.search(a.filter, name):
        continue
    meta = json.load(open(os.path.join(d, 'meta.json')))
    props = [meta['property']] + [p for p in meta.get('also_check', [])] + [p for p in a.also.split(',') if p]
    tmp = tempfile.mkdtemp(prefix='vseed_', dir='/tmp')
    try:
        shutil.copytree('/repo/qstrader', tmp + '/qstrader')
        r = subprocess.run(['patch', '-p1', '-s', '-d', tmp, '-i', os.path.join(d, 'patch.diff')], capture_output=True, text=True)
        if r.returncode != 0:
            print(name, 'PATCH FAILED', r.stdout[-300:], r.stderr[-300:]); continue
        for prop in props:
            t0 = time.time()
            env = dict(os.environ, VERIF_REPO=tmp, VERIF_OUT=tmp)
            r = subprocess.run(['timeout', '2400', os.path.join(ROOT, 'vcheck'), 'run', prop, '--tier', a.tier], env=env, capture_output=True, text=True)
            viol = re.findall(r'VIOLATION property=\S+ replay=\S+\s+\((.*?)\)', r.stdout)
            inc = re.findall(r'INCONCLUSIVE: (.*)', r.stdout)
            status = {1: 'CAUGHT', 0: 'MISSED', 2: 'INCONCLUSIVE'}.get(r.returncode, 'ERR%d' % r.returncode)
            results['%s/%s/%s' % (name, prop, a.tier)] = dict(status=status, violations=viol[:3], inconclusive=inc[:2], seconds=round(time.time() - t0))
            print('%-12s %-8s %-4s %-6s %4ds %s %s' % (status, name, prop, a.tier, time.time() - t0, '; '.join(viol[:2])[:150], (inc[0][:200] if inc and status != 'CAUGHT' else '')), flush=True)
            json.dump(results, open(resf, 'w'), indent=1, sort_keys=True)
    finally:
        shutil.rmtree(tmp, ignore_errors=True)
