CSV = 'qstrader/data/daily_bar_csv.py'
DH = 'qstrader/data/backtest_data_handler.py'
BT = 'qstrader/trading/backtest.py'
EX = 'qstrader/exchange/simulated_exchange.py'
SC = 'qstrader/signals/signals_collection.py'
BR = 'qstrader/broker/simulated_broker.py'
MUTANTS = [
 ('lookup_nearest', 'C06', CSV, "method='pad'", "method='nearest'"),
 ('lookup_backfill', 'C06', CSV, "method='pad'", "method='backfill'"),
 ('lookup_first_row', 'C06', CSV, "bid_series = bid_ask_df.iloc[bid_idx]['Bid']", "bid_series = bid_ask_df.iloc[[0]]['Bid']"),
 ('lookup_undo_fix', 'C06', CSV, "if bid_idx[0] == -1:  # Before start date", "if False:"),
 ('offsets_swapped', 'C06', CSV, "seq_oc_df.loc[seq_oc_df['Market'] == 'Open', 'Date'] += pd.Timedelta(hours=14, minutes=30)\n        seq_oc_df.loc[seq_oc_df['Market'] == 'Close', 'Date'] += pd.Timedelta(hours=21, minutes=00)", "seq_oc_df.loc[seq_oc_df['Market'] == 'Open', 'Date'] += pd.Timedelta(hours=21, minutes=00)\n        seq_oc_df.loc[seq_oc_df['Market'] == 'Close', 'Date'] += pd.Timedelta(hours=14, minutes=30)"),
 ('bfill', 'C06', CSV, "['Date', 'Bid', 'Ask']].ffill()", "['Date', 'Bid', 'Ask']].bfill()"),
 ('adj_close_only', 'C06', CSV, "oc_df['Adj Open'] = (oc_df['Adj Close'] / oc_df['Close']) * oc_df['Open']", "oc_df['Adj Open'] = oc_df['Open']"),
 ('ffill_after_sort_unsorted_input', 'C06', CSV, "        bar_df = bar_df.sort_index()\n", "        pass\n"),
 ('handler_mid_bid', 'C06', DH, "mid = (bid_ask[0] + bid_ask[1]) / 2.0", "mid = bid_ask[0]"),
 ('handler_last_source', 'C06', DH, "                if not np.isnan(bid):\n                    return bid", "                if not np.isnan(bid):\n                    pass"),
 ('c07_lookup_nearest', 'C07', CSV, "method='pad'", "method='nearest'"),
 ('c07_lookup_backfill', 'C07', CSV, "method='pad'", "method='backfill'"),
 ('c07_exchange_open_at_close', 'C07', EX, "dt.time() < self.close_dt", "dt.time() <= self.close_dt"),
 ('c07_equity_next_open', 'C07', BT, '(dt, self.broker.get_account_total_equity()["master"])', '(dt, self.broker.get_account_total_equity()["master"] + 0.0 * self.data_handler.get_asset_latest_mid_price(dt + pd.Timedelta(hours=18), list(self.broker.get_portfolio_as_dict(self.portfolio_id) or self.universe.get_assets(dt))[0]) if self.universe.get_assets(dt) else (dt, 0.0))'),
 ('c07_undo_fix', 'C07', CSV, "if bid_idx[0] == -1:  # Before start date", "if False:"),
 ('c07_mark_next_day', 'C07', BR, "mid_price = self.data_handler.get_asset_latest_mid_price(\n                    dt, asset\n                )", "import pandas as _pd\n                mid_price = self.data_handler.get_asset_latest_mid_price(\n                    dt + _pd.Timedelta(hours=18), asset\n                )"),
]
