"""Hand mutants for signals (C16), statistics (C17), universe (C19) and the session loop (C14) - round 2.
Each keeps the 151 baseline tests passing (run with --tests to confirm) and needs a specific input to manifest."""
MOM = 'qstrader/signals/momentum.py'
VOL = 'qstrader/signals/vol.py'
SMA = 'qstrader/signals/sma.py'
BUF = 'qstrader/signals/buffer.py'
PERF = 'qstrader/statistics/performance.py'
DYN = 'qstrader/asset/universe/dynamic.py'
BT = 'qstrader/trading/backtest.py'
MUTANTS = [
 # C16
 ('mom_window_not_bumped', 'C16', MOM, "bumped_lookbacks = [lookback + 1 for lookback in lookbacks]", "bumped_lookbacks = [max(lookback, 2) for lookback in lookbacks]"),
 ('mom_sum_not_compound', 'C16', MOM, "return (np.cumprod(1.0 + np.array(returns)) - 1.0)[-1]", "return np.sum(np.array(returns)) if len(returns) > 2 else (np.cumprod(1.0 + np.array(returns)) - 1.0)[-1]"),
 ('vol_sample_std_long', 'C16', VOL, "return np.std(returns) * np.sqrt(252)", "return np.std(returns, ddof=1 if len(returns) > 2 else 0) * np.sqrt(252)"),
 ('vol_one_return_nonzero', 'C16', VOL, "if len(returns) < 1:", "if len(returns) < 2:"),
 ('sma_skips_oldest_when_full', 'C16', SMA, "return np.mean(self.buffers.prices['%s_%s' % (asset, lookback)])", "b = self.buffers.prices['%s_%s' % (asset, lookback)]\n        return np.mean(list(b)[1:] if len(b) == b.maxlen and len(b) > 2 else b)"),
 ('buf_only_first_lookback', 'C16', BUF, "        for lookback in self.lookbacks:\n            self.prices[", "        for lookback in self.lookbacks[:2]:\n            self.prices["),
 ('buf_key_collision', 'C16', BUF, "return '%s_%s' % (asset, lookback)", "return '%s%s' % (asset, lookback)"),
 # C17
 ('dd_hwm_lags_one', 'C17', PERF, "hwm[t] = max(hwm[t - 1], returns.iloc[t])", "hwm[t] = max(hwm[t - 1], returns.iloc[t - 1])"),
 ('dd_divides_by_current', 'C17', PERF, "perf[\"Drawdown\"] = (hwm - returns) / hwm", "perf[\"Drawdown\"] = (hwm - returns) / np.maximum(hwm, returns.iloc[0])"),
 ('dd_duration_total_not_run', 'C17', PERF, "    duration = max(\n        sum(1 for i in g if i == 1)\n        for k, g in groupby(perf[\"DurationCheck\"])\n    )", "    duration = max(\n        sum(1 for i in g if i == 1)\n        for k, g in groupby(sorted(perf[\"DurationCheck\"]))\n    )"),
 ('agg_weekly_no_year', 'C17', PERF, "            [lambda x: x.year,\n             lambda x: x.month,\n             lambda x: x.isocalendar()[1]]", "            [lambda x: x.month,\n             lambda x: x.isocalendar()[1]]"),
 ('agg_monthly_no_year', 'C17', PERF, "[lambda x: x.year, lambda x: x.month]).apply", "[lambda x: x.month]).apply"),
 ('agg_sum_not_compound', 'C17', PERF, "return np.exp(np.log(1 + x).cumsum()).iloc[-1] - 1", "return x.cumsum().iloc[-1] if len(x) > 3 else np.exp(np.log(1 + x).cumsum()).iloc[-1] - 1"),
 # C19
 ('dyn_strict_entry', 'C19', DYN, "if asset_date is not None and dt >= asset_date", "if asset_date is not None and dt > asset_date"),
 ('dyn_none_included', 'C19', DYN, "if asset_date is not None and dt >= asset_date", "if asset_date is None or dt >= asset_date"),
 ('dyn_date_only', 'C19', DYN, "if asset_date is not None and dt >= asset_date", "if asset_date is not None and dt.date() >= asset_date.date()"),
 # C14
 ('bt_burnin_strict', 'C14', BT, "                if dt >= self.burn_in_dt:\n                    if self._is_rebalance_event(dt):", "                if dt > self.burn_in_dt:\n                    if self._is_rebalance_event(dt):"),
 ('bt_equity_burnin_strict', 'C14', BT, "                    if dt >= self.burn_in_dt:\n                        self._update_equity_curve(dt)", "                    if dt > self.burn_in_dt:\n                        self._update_equity_curve(dt)"),
 ('bt_rebalance_by_date', 'C14', BT, "return dt in self.rebalance_schedule", "return dt in self.rebalance_schedule or dt.normalize() in [d.normalize() for d in self.rebalance_schedule]"),
]
