#!/bin/bash
# Build the overlay venv offline: /venv's packages + /repo on the path, plus z3/crosshair/cvc5 from the wheelhouse.
set -e
cd "$(dirname "$0")"
if [ ! -x .venv/bin/python ] || ! .venv/bin/python -c "import z3, crosshair, cvc5, pandas" 2>/dev/null; then
  rm -rf .venv
  /venv/bin/python -m venv .venv
  SP=$(.venv/bin/python -c "import sysconfig; print(sysconfig.get_paths()['purelib'])")
  printf '/venv/lib/python3.12/site-packages\n/repo\n' > "$SP/_overlay.pth"
  PIP_NO_INDEX=1 .venv/bin/pip install -q --no-index --find-links /opt/veriftools/wheels z3-solver crosshair-tool cvc5
fi
.venv/bin/python -c "import z3, crosshair, cvc5, pandas, qstrader; print('verif venv ok: z3', z3.get_version_string())"
